#!/bin/bash
# tools/verify_mutant.sh <dir-with-mutantN.diff+mutantN_demo.rs> <N>
# Confirms in a scratch worktree (outside /repo and /verif) that the change
# compiles, keeps the 49 baseline tests passing, and that its demonstration
# fails with it and passes without it.
set -u
dir="$1"; n="$2"
W=/tmp/mutv
if [ ! -d "$W" ]; then git -C /repo worktree add -q --detach "$W" HEAD || exit 2; fi
cd "$W" || exit 2
git checkout -q --detach "$(git -C /repo rev-parse HEAD)" 2>/dev/null
git checkout -- . ; git clean -fdq -e target
export CARGO_NET_OFFLINE=true
git apply "$dir/mutant$n.diff" || { echo "verify: mutant$n.diff does not apply"; exit 2; }
base=$(cargo test --offline --lib 2>&1 | grep -E "^test result" | head -1)
mkdir -p tests; cp "$dir/mutant${n}_demo.rs" tests/
with=$(cargo test --offline --test "mutant${n}_demo" 2>&1 | grep -E "^test result|error(\[|:)" | head -2 | tr '\n' ' ')
git checkout -- . 
without=$(cargo test --offline --test "mutant${n}_demo" 2>&1 | grep -E "^test result|error(\[|:)" | head -2 | tr '\n' ' ')
git clean -fdq -e target
echo "mutant$n: baseline-with-mutant: $base"
echo "mutant$n: demo WITH mutant:    $with"
echo "mutant$n: demo WITHOUT mutant: $without"
