#!/bin/bash
# tools/verify_mutant.sh <dir> <name>   (name = mutant4, benign1, ...; a bare number N means mutantN)
# Confirms in a scratch worktree (outside /repo and /verif) that the change
# compiles, keeps the 49 baseline tests passing, and that its demonstration
# fails with it and passes without it.
set -u
dir="$1"; n="$2"
case "$n" in [0-9]*) name="mutant$n" ;; *) name="$n" ;; esac
W=/tmp/mutv
if [ ! -d "$W" ]; then git -C /repo worktree add -q --detach "$W" HEAD || exit 2; fi
cd "$W" || exit 2
git checkout -q --detach "$(git -C /repo rev-parse HEAD)" 2>/dev/null
git checkout -- . ; git clean -fdq -e target
export CARGO_NET_OFFLINE=true
git apply "$dir/$name.diff" || { echo "verify: $name.diff does not apply"; exit 2; }
base=$(cargo test --offline --lib 2>&1 | grep -E "^test result" | head -1)
mkdir -p tests; cp "$dir/${name}_demo.rs" tests/
with=$(cargo test --offline --test "${name}_demo" 2>&1 | grep -E "^test result|error(\[|:)" | head -2 | tr '\n' ' ')
git checkout -- . 
without=$(cargo test --offline --test "${name}_demo" 2>&1 | grep -E "^test result|error(\[|:)" | head -2 | tr '\n' ' ')
git clean -fdq -e target
echo "$name: baseline-with-mutant: $base"
echo "$name: demo WITH mutant:    $with"
echo "$name: demo WITHOUT mutant: $without"
