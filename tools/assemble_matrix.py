#!/usr/bin/env python3
"""tools/assemble_matrix.py LOG...: builds seeded/MATRIX.md from the logs of
tools/seeded_matrix.sh runs (one line per seeded change:
`<id> <kind> <check> rc=<n> (want <m>) <s>s <clause>`).  Later logs win."""
import re, sys, subprocess, datetime
rows = {}
src = {}
for f in sys.argv[1:]:
    for line in open(f):
        m = re.match(r"^(\S+) (benign|breaking)( \(judged: see meta\.json\))? (C\d\d) rc=(\d*) \(want (\d)\) (\d+)s ?(.*)$", line.rstrip("\n"))
        if m:
            rows[m.group(1)] = (m.group(2) + (m.group(3) or ""), m.group(4), m.group(5), m.group(6), m.group(7), m.group(8))
            src[m.group(1)] = f
def key(i):
    m = re.match(r"([CD])(\d+)-([a-z]+)(\d*)", i)
    return (m.group(1), int(m.group(2)), m.group(3)[0], int(m.group(4) or 0))
bad = [i for i, r in rows.items() if r[2] != r[3]]
print("# Seeded changes vs. checks\n")
print("Assembled by `tools/assemble_matrix.py` on %s from %d runs of `tools/seeded_matrix.sh`" % (datetime.datetime.utcnow().strftime("%Y-%m-%dT%H:%MZ"), len(sys.argv) - 1))
print("(each run: for every seeded change, `git apply` to a checkout of the crate at 96bbc3a, quick check of the targeted property, checkout restored).")
print("The runs were made in parallel on `vp run --with-repo` snapshots of the committed /verif (the snapshot's own copy of the crate is patched, /repo is untouched); `tools/seeded_matrix.sh` run in /verif itself does the same against /repo, one change after the other.")
print("%d changes; results that differ from the expectation: %d%s.\n" % (len(rows), len(bad), (" (" + ", ".join(bad) + ")") if bad else ""))
print("| seeded change | kind | check | exit | expected | s | clause [signature] |")
print("|---|---|---|---|---|---|---|")
for i in sorted(rows, key=key):
    k, c, rc, want, s, cl = rows[i]
    print("| %s | %s | %s | %s%s | %s | %s | %s |" % (i, k, c, rc, "" if rc == want else " **UNEXPECTED**", want, s, cl))
