#!/usr/bin/env python3
"""tools/mutation_sweep.py [--workers N] [--quota-scale F] [--seed S] [--out DIR]

Mechanical mutation sweep: single-token changes (relational and boolean
operators, +/-, small integer literals, true/false, is_some/is_none, deleted
statements) to the non-test code the properties are anchored in.  A mutant
that compiles and keeps the crate's 49 unit tests passing is run against the
quick checks of the properties anchored in that file; the first check that
exits 1 "kills" it.  Survivors are listed for triage (equivalent mutant /
behaviour no property speaks about / blind spot of a check).

Everything happens in scratch copies under --out (default /tmp/mutsweep):
per worker one git worktree of /repo and one copy of /verif (own build
output).  /repo and /verif themselves are not touched.  Worktrees are removed
at the end."""
import argparse, json, os, random, re, shutil, subprocess, sys, threading, queue, time

GROUPS = [
    # (name, [(file, first line, last line)], checks in order, quota of test-surviving mutants)
    ("codec", [("src/packet.rs", 300, 780), ("src/header.rs", 1, 373)], ["C02", "C03", "C07", "C15"], 40),
    ("block", [("src/block_handler/mod.rs", 1, 552), ("src/block_handler/block_value.rs", 1, 85)], ["C09", "C08", "C10", "C11", "C12", "C20"], 70),
    ("observe", [("src/observe.rs", 1, 233)], ["C14", "C15"], 30),
    ("linkfmt", [("src/link_format.rs", 559, 724)], ["C18"], 20),
    ("reqresp", [("src/request.rs", 1, 157), ("src/response.rs", 1, 88)], ["C07"], 15),
]

SUBS = [
    (r"<=", "<"), (r">=", ">"), (r" < ", " <= "), (r" > ", " >= "), (r"==", "!="), (r"!=", "=="),
    (r"&&", "||"), (r" \|\| ", " && "), (r" \+ ", " - "), (r" - ", " + "),
    (r"\btrue\b", "false"), (r"\bfalse\b", "true"), (r"\.is_none\(\)", ".is_some()"), (r"\.is_some\(\)", ".is_none()"),
    (r"\+= 1\b", "+= 2"), (r"\bmin\(", "max("), (r"\bmax\(", "min("),
]
LIT = re.compile(r"(?<![\w.])(\d+)(?![\w.])")


def candidates(repo, file, lo, hi):
    lines = open(os.path.join(repo, file)).read().split("\n")
    out = []
    skip_block = 0
    for i, line in enumerate(lines, 1):
        if i < lo or i > hi:
            continue
        st = line.strip()
        if "verif" in line or st.startswith("//") or st.startswith("#[") or st.startswith("use ") or st.startswith("pub use") or not st:
            continue
        code = line.split("//")[0]
        if "debug_assert" in code or "coap_debug" in code or "coap_info" in code:
            continue
        for pat, rep in SUBS:
            for m in re.finditer(pat, code):
                new = code[: m.start()] + rep + code[m.end():] + line[len(code):]
                out.append((file, i, line, new, "%s -> %s" % (m.group(0).strip(), rep.strip())))
        for m in LIT.finditer(code):
            v = int(m.group(1))
            if v > 70000 or "0x" in code[max(0, m.start() - 2): m.start()]:
                continue
            for nv in ([v + 1] if v == 0 else [v + 1, v - 1]):
                new = code[: m.start()] + str(nv) + code[m.end():] + line[len(code):]
                out.append((file, i, line, new, "%d -> %d" % (v, nv)))
        # statement deletion: simple assignments and calls on one line
        if re.match(r"^\s*[\w\.\[\]\(\)\*&]+\s*(=|\+=|-=)\s*[^=].*;\s*$", code) and not st.startswith("let "):
            out.append((file, i, line, re.sub(r"^(\s*)", r"\1// ", line, count=1), "statement removed"))
        elif re.match(r"^\s*[\w\.]+\([^{}]*\);\s*$", code) and not st.startswith("return") and not st.startswith("let "):
            out.append((file, i, line, re.sub(r"^(\s*)", r"\1// ", line, count=1), "call removed"))
    return out


def sh(cmd, cwd=None, env=None, timeout=3600):
    e = dict(os.environ)
    e["CARGO_NET_OFFLINE"] = "true"
    if env:
        e.update(env)
    # own process group, so that a hanging mutant (test binary, simulator) can
    # be killed together with the shell that started it
    p = subprocess.Popen(cmd, cwd=cwd, env=e, shell=True, stdout=subprocess.PIPE, stderr=subprocess.STDOUT, start_new_session=True)
    try:
        out, _ = p.communicate(timeout=timeout)
    except subprocess.TimeoutExpired:
        import signal
        try:
            os.killpg(p.pid, signal.SIGKILL)
        except ProcessLookupError:
            pass
        p.communicate()
        raise
    return p.returncode, out.decode(errors="replace")


class Worker(threading.Thread):
    def __init__(self, k, root, jobs, results, lock, state):
        super().__init__()
        self.k, self.root, self.jobs, self.results, self.lock, self.state = k, root, jobs, results, lock, state
        self.repo = os.path.join(root, "w%d" % k, "repo")
        self.verif = os.path.join(root, "w%d" % k, "verif")

    def setup(self):
        os.makedirs(os.path.join(self.root, "w%d" % self.k), exist_ok=True)
        sh("git -C /repo worktree add -q --detach %s HEAD" % self.repo)
        sh("rsync -a --exclude sim/target --exclude .git --exclude evidence --exclude replays /verif/ %s/" % self.verif)
        sh("cargo test --offline --lib", cwd=self.repo)
        sh("./check build", cwd=self.verif, env={"COAPSIM_REPO": self.repo})

    def run(self):
        self.setup()
        while True:
            try:
                job = self.jobs.get_nowait()
            except queue.Empty:
                return
            group, checks, quota, (file, ln, old, new, what) = job
            with self.lock:
                if self.state["survived_tests"].get(group, 0) >= quota:
                    continue
            path = os.path.join(self.repo, file)
            src = open(path).read()
            lines = src.split("\n")
            assert lines[ln - 1] == old
            lines[ln - 1] = new
            open(path, "w").write("\n".join(lines))
            rec = {"group": group, "file": file, "line": ln, "what": what, "old": old.strip(), "new": new.strip()}
            try:
                rc, out = sh("cargo test --offline --lib 2>&1 | tail -5", cwd=self.repo, timeout=240)
                m = re.search(r"test result: (\w+)\. (\d+) passed; (\d+) failed", out)
                if not m:
                    rec["status"] = "does-not-compile"
                elif m.group(1) != "ok":
                    rec["status"] = "killed-by-unit-tests"
                else:
                    with self.lock:
                        self.state["survived_tests"][group] = self.state["survived_tests"].get(group, 0) + 1
                    rec["status"] = "SURVIVED"
                    rec["checks"] = []
                    for c in checks:
                        t0 = time.time()
                        rc, out = sh("./check %s --tier quick" % c, cwd=self.verif, env={"COAPSIM_REPO": self.repo, "VERIF_EVIDENCE_DIR": os.path.join(self.root, "w%d" % self.k, "ev"), "VERIF_REPLAY_DIR": os.path.join(self.root, "w%d" % self.k, "rp")}, timeout=3000)
                        cl = re.search(r"^  clause (\S+) \[([^\]]+)\]", out, flags=re.M)
                        rec["checks"].append({"check": c, "exit": rc, "seconds": int(time.time() - t0), "clause": cl.group(1) if cl else None, "sig": cl.group(2) if cl else None})
                        if rc == 1:
                            rec["status"] = "killed-by-check"
                            rec["killed_by"] = c
                            break
                        if rc == 2:
                            he = re.search(r"harness error: (.*)", out)
                            rec["status"] = "harness-error"
                            rec["detail"] = (he.group(1) if he else out[-300:])[:300]
                            break
            except subprocess.TimeoutExpired:
                rec["status"] = rec.get("status", "") + "timeout" if rec.get("status") == "SURVIVED" else "hangs-in-unit-tests"
            finally:
                open(path, "w").write(src)
            with self.lock:
                self.results.write(json.dumps(rec) + "\n")
                self.results.flush()
                print("[w%d] %s:%d %-22s %s %s" % (self.k, file, ln, what, rec["status"], rec.get("killed_by", "")), flush=True)

    def teardown(self):
        sh("git -C /repo worktree remove --force %s" % self.repo)


def main():
    ap = argparse.ArgumentParser()
    ap.add_argument("--workers", type=int, default=4)
    ap.add_argument("--quota-scale", type=float, default=1.0)
    ap.add_argument("--seed", type=int, default=20261003)
    ap.add_argument("--out", default="/tmp/mutsweep")
    a = ap.parse_args()
    os.makedirs(a.out, exist_ok=True)
    rng = random.Random(a.seed)
    jobs = queue.Queue()
    all_jobs = []
    for name, files, checks, quota in GROUPS:
        cands = []
        for f, lo, hi in files:
            cands += candidates("/repo", f, lo, hi)
        rng.shuffle(cands)
        q = int(quota * a.quota_scale)
        # enough candidates to fill the quota even if most die in the unit tests
        for c in cands[: q * 6]:
            all_jobs.append((name, checks, q, c))
    # interleave the groups so that the quotas fill evenly
    rng.shuffle(all_jobs)
    for j in all_jobs:
        jobs.put(j)
    print("%d candidate mutants queued" % len(all_jobs), flush=True)
    lock = threading.Lock()
    state = {"survived_tests": {}}
    results = open(os.path.join(a.out, "results.jsonl"), "a")
    ws = [Worker(k, a.out, jobs, results, lock, state) for k in range(a.workers)]
    for w in ws:
        w.start()
    for w in ws:
        w.join()
    for w in ws:
        w.teardown()
    sh("git -C /repo worktree prune")
    print("done", flush=True)


if __name__ == "__main__":
    main()
