#!/bin/bash
# tools/seeded_matrix.sh [pattern]: runs, for every seeded change under
# /verif/seeded (matching the optional glob pattern), the quick check of the
# property it targets against /repo with the change applied, and writes
# /verif/seeded/MATRIX.md.  Property-breaking changes (…-mN) must make the
# check exit 1; benign changes (…-bN) must leave it at exit 0.
# /repo is always restored; nothing is committed there.
cd "$(dirname "$0")/.." || exit 2
pat="${1:-*}"
out=${MATRIX_OUT:-seeded/MATRIX.md}
tmp=$(mktemp)
echo "| seeded change | kind | check | exit | s | clause [signature] |" > "$tmp"
echo "|---|---|---|---|---|---|" >> "$tmp"
bad=0
for d in seeded/$pat/; do
  id=$(basename "$d"); prop=${id%%-*}
  case "$id" in D*) prop=$(python3 -c 'import json,sys; print(json.load(open(sys.argv[1]))["breaks_property"].split()[0])' "$d/meta.json") ;; esac
  [ -f "$d/patch.diff" ] || continue
  # a change may name another check as the one expected to report it
  alt=$(python3 -c 'import json,sys; print(json.load(open(sys.argv[1])).get("matrix_check",""))' "$d/meta.json" 2>/dev/null)
  [ -n "$alt" ] && prop="$alt"
  kind=$(case "$id" in *-b*) echo benign ;; *) echo breaking ;; esac)
  line=$(MUTANT_BASELINE=0 tools/try_mutant.sh "$d/patch.diff" "$prop" 2>&1 | grep "^$prop rc=")
  rc=$(echo "$line" | sed -n 's/.* rc=\([0-9]*\) .*/\1/p')
  secs=$(echo "$line" | sed -n 's/.* rc=[0-9]* \([0-9]*\)s.*/\1/p')
  clause=$(echo "$line" | sed -n 's/.*clause \([^ ]* \[[^]]*\]\).*/\1/p')
  want=$([ "$kind" = benign ] && echo 0 || echo 1)
  # a change judged not to break the property as stated names its expected exit
  exp=$(python3 -c 'import json,sys; print(json.load(open(sys.argv[1])).get("expected_exit",""))' "$d/meta.json" 2>/dev/null)
  [ -n "$exp" ] && { want="$exp"; kind="$kind (judged: see meta.json)"; }
  mark=""; if [ "$rc" != "$want" ]; then mark=" **UNEXPECTED**"; bad=$((bad+1)); fi
  echo "| $id | $kind | $prop | $rc$mark | $secs | $clause |" >> "$tmp"
  echo "$id $kind $prop rc=$rc (want $want) ${secs}s $clause"
done
{
  echo "# Seeded changes vs. checks"
  echo
  echo "Produced by \`tools/seeded_matrix.sh\` on $(date -u +%Y-%m-%dT%H:%MZ), /repo at $(git -C "${COAPSIM_REPO:-/repo}" rev-parse --short HEAD), /verif at $(git rev-parse --short HEAD)$(git diff --quiet || echo +dirty)."
  echo "Every change was applied to /repo (\`git apply\`), the quick check of the targeted property was run, and /repo was restored."
  echo "Unexpected results: $bad."
  echo
  cat "$tmp"
} > "$out"
rm -f "$tmp"
echo "matrix written to $out; unexpected: $bad"
