#!/bin/bash
# tools/try_mutant.sh <patch.diff> <PROP> [<PROP>...]   [-- extra check args]
# Applies a seeded change to /repo, runs the given checks (quick tier), prints
# one line per check and ALWAYS restores /repo afterwards.  Never commits.
set -u
patch="$(realpath "$1")"; shift
VERIF_DIR="$(realpath "$(dirname "$0")/..")"
MT="${MUTANT_TMP:-/tmp/mutant}"
props=()
extra=()
while [ $# -gt 0 ]; do
  if [ "$1" = "--" ]; then shift; extra=("$@"); break; fi
  props+=("$1"); shift
done
REPO="${COAPSIM_REPO:-/repo}"
cd "$REPO" || exit 2
if [ -n "$(git status --porcelain --untracked-files=no)" ]; then echo "try_mutant: $REPO is not clean" >&2; exit 2; fi
restore() { git -C "$REPO" checkout -- . ; }
trap restore EXIT
git apply "$patch" || { echo "try_mutant: patch does not apply" >&2; exit 2; }
if [ "${MUTANT_BASELINE:-1}" = "1" ]; then
  base=$(cd "$REPO" && cargo test --offline 2>&1 | grep -E "^test result" | head -1)
  echo "baseline-with-mutant: $base"
fi
for p in "${props[@]}"; do
  s=$(date +%s)
  out=$(cd "$VERIF_DIR" && VERIF_EVIDENCE_DIR=$MT-evidence VERIF_REPLAY_DIR=$MT-replays ./check "$p" --tier quick "${extra[@]+"${extra[@]}"}" 2>&1)
  rc=$?
  e=$(date +%s)
  v=$(echo "$out" | grep -m1 "^VIOLATION" || true)
  c=$(echo "$out" | grep -m1 "^  clause" || true)
  echo "$p rc=$rc $((e-s))s $v $c"
done
