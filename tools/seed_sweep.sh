#!/bin/bash
# tools/seed_sweep.sh <first> <last> [tier]: every check under many VERIF_SEEDs
# on the current tree; prints one line per (seed, check); any VIOLATION line
# or non-zero exit is a false alarm to be investigated.
cd "$(dirname "$0")/.." || exit 2
./check build || exit 2
tier="${3:-quick}"
bad=0
for seed in $(seq "$1" "$2"); do
  for p in C02 C03 C07 C08 C09 C10 C11 C12 C14 C15 C18 C20; do
    out=$(VERIF_SEED=$seed VERIF_EVIDENCE_DIR=/tmp/sweep-evidence-$$ VERIF_REPLAY_DIR="$(pwd)/sweep-replays" ./check $p --tier "$tier" 2>&1); rc=$?
    v=$(echo "$out" | grep -c "^VIOLATION")
    echo "seed=$seed $p rc=$rc violations=$v $(echo "$out" | grep -m1 '^VIOLATION')"
    [ $rc -ne 0 ] && bad=$((bad+1))
  done
done
rm -rf /tmp/sweep-evidence-$$
echo "sweep done: $bad failing (seed, check) pairs"
exit $([ $bad -eq 0 ] && echo 0 || echo 1)
