#!/bin/bash
# tools/thorough_all.sh: every check once in the thorough tier (validation of
# depth, timing and absence of alarms on the unchanged tree).
cd "$(dirname "$0")/.." || exit 2
./check build || exit 2
bad=0
for p in ${THOROUGH_ORDER:-C08 C10 C09 C12 C20 C07 C18 C14 C15 C02 C03 C11}; do
  s=$(date +%s)
  out=$(VERIF_EVIDENCE_DIR="$(pwd)/thorough-evidence" VERIF_REPLAY_DIR="$(pwd)/thorough-replays" ./check $p --tier thorough 2>&1); rc=$?
  e=$(date +%s)
  echo "$p thorough rc=$rc $((e-s))s $(echo "$out" | grep -c '^VIOLATION') violations; $(echo "$out" | grep '^coapsim: [0-9]' | tail -1 | cut -c1-160)"
  [ $rc -ne 0 ] && { bad=$((bad+1)); echo "$out" | grep -A2 '^VIOLATION' | head -12; }
done
echo "thorough done: $bad failing"
