#![allow(dead_code)]
//! coapsim — deterministic simulation with fault injection for coap-lite.
//!
//!   coapsim run --prop C09 [--tier quick|thorough] [--runs N] [--seed S]
//!               [--threads T] [--evidence FILE] [--known FILE] [--replays DIR]
//!               [--profile NAME] [--partial]
//!   coapsim replay FILE
//!   coapsim hashes --family F --runs N [--seed S] [--threads T]
//!
//! Exit codes: 0 held, 1 violation (a `VIOLATION property=<id> replay=<path>`
//! line is printed), 2 harness error.
mod clockshim;
mod choices;
mod common;
mod des;
mod fam_block;
mod fam_directed;
mod fam_expiry;
mod fam_hostile;
mod fam_isolation;
mod fam_observe;
mod fam_sink;
mod fam_wire;
mod gen;
mod json;
mod oracle_block;
mod refparse;
mod server;
mod world;

use choices::{run_seed, Ch};
use common::*;
use des::Stats;
use json::J;
use std::collections::{BTreeMap, BTreeSet};
use std::sync::atomic::{AtomicU64, Ordering};
use std::sync::Mutex;
use std::time::Instant;

pub const DEFAULT_SEED: u64 = 20261002;

struct PropCfg {
    id: &'static str,
    family: &'static str,
    level: &'static str,
    quick_runs: u64,
    thorough_runs: u64,
    rule: &'static str,
    assumptions: &'static [&'static str],
    real: &'static [&'static str],
    stub: &'static [&'static str],
}

const REAL_BLOCK: &[&str] = &[
    "coap_lite::Packet::from_bytes / to_bytes_unlimited",
    "coap_lite::CoapRequest::from_packet / apply_from_error",
    "coap_lite::CoapResponse::new",
    "coap_lite::BlockHandler::intercept_request / intercept_response (incl. BlockValue codec)",
    "lru_time_cache 0.11.11 (clock read through the FakeClock seam)",
];
const STUB_BLOCK: &[&str] = &["network (SimNet: latency, drop, dup, delay, corruption)", "clock source (simulated, event driven; seams: lru_time_cache clock type and clock_gettime)", "client state machines", "server loop glue (written from README.md / examples/server.rs)", "application (deterministic resource table)"];

fn props() -> Vec<PropCfg> {
    vec![
        PropCfg {
            id: "C08",
            family: "blockwise+blockwise+directed",
            level: "exploration",
            quick_runs: 300_000,
            thorough_runs: 6_000_000,
            rule: "Two of three runs are of the `blockwise` family, one of three of the `directed` family (one client, fault-free link, block sizes 16/32/64, every body length 0..3*size+1, budgets right above the smallest admissible one and around exactly admitting the block size, every client preference, duplicate patterns, abandoned prefixes, a second transfer on the same key); same oracles. One evaluation = one seeded simulated run. `blockwise`: (1-4 clients, 1-3 transfers each, budget drawn relative to the measured overheads, swarm-drawn drop/dup/delay faults, client retransmission timers on the simulated clock). Non-trivial = a download that the ground-truth premise classifier placed inside C08's premise (blocks 0,1,2,... arrived once each in order, contiguous on its key, budget in [overhead+28,1280]) and that took >= 2 exchanges; distinct = distinct abstract tuples (exchange count, block size chosen, body length class mod block size, (budget-overhead-28)/8 bucket, option-set size, early-negotiation exponent, reduction exponent, token length), counted by 64-bit hash. Added later in the blockwise family: server expiry drawn from 250 ms .. 10^6 s (a transfer during which its own state expired is outside the premise), token length varying inside a transfer, the M bit set in request Block2 options, 300-700 distinct noise keys, patterned bodies, message ids near the wrap.",
            assumptions: &["the stub server loop drives the library the way README.md and examples/server.rs show", "client stubs and oracles use an independent reference codec (encoder, parser, block option codec), not the crate's", "sampling: a clean batch is evidence, not proof", "bodies <= 20000 bytes, <= 4095 blocks"],
            real: REAL_BLOCK,
            stub: STUB_BLOCK,
        },
        PropCfg {
            id: "C09",
            family: "blockwise+blockwise+directed",
            level: "exploration",
            quick_runs: 300_000,
            thorough_runs: 6_000_000,
            rule: "Two of three runs are of the `blockwise` family, one of three of the boundary-dense `directed` family (see C08); same oracles. One evaluation = one seeded simulated run. Non-trivial = an upload inside C09's premise per the ground-truth classifier (its blocks arrived in order, each >= 1 times consecutively, contiguous on its key, only well-shaped transfers incl. abandoned in-order prefixes before it, budget admits the client's block size) with >= 2 block deliveries; distinct = distinct abstract delivery histories (per delivery: duplicate?, more flag, size exponent; total deliveries; clean-or-abandoned-prefix before), counted by 64-bit hash.",
            assumptions: &["the stub server loop drives the library the way README.md and examples/server.rs show", "client stubs and oracles use an independent reference codec (encoder, parser, block option codec), not the crate's", "sampling: a clean batch is evidence, not proof", "bodies <= 5000 bytes"],
            real: REAL_BLOCK,
            stub: STUB_BLOCK,
        },
        PropCfg {
            id: "C10",
            family: "blockwise+blockwise+directed",
            level: "exploration",
            quick_runs: 300_000,
            thorough_runs: 6_000_000,
            rule: "One evaluation = one seeded simulated run of the `blockwise` (2 of 3) or the boundary-dense `directed` family (1 of 3, see C08); the C10 clauses (pow2, le-client, fits, exact, unfragmented-fits) are evaluated inline on every reply the handler produced whose own premise holds (budget in [overhead+28,1280], no application Block2, client never raised the size). Non-trivial = in-premise transfers with >= 2 exchanges; distinct as for C08/C09 (the tuple includes the chosen size and the budget-overhead bucket).",
            assumptions: &["overhead = encoded size of the message without payload and marker, as the handler measures it", "sampling: a clean batch is evidence, not proof"],
            real: REAL_BLOCK,
            stub: STUB_BLOCK,
        },
        PropCfg {
            id: "C07",
            family: "blockwise+wire+hostile",
            level: "exploration",
            quick_runs: 200_000,
            thorough_runs: 3_000_000,
            rule: "One evaluation = one seeded simulated run of one of three families picked by the first choice (blockwise: cooperative traffic with up to 2 outstanding requests per endpoint, reordering and duplication; wire: corrupted and byzantine datagrams, so versions 0-3, all four types and token lengths 0-8 reach from_packet; hostile: adversarial requests of all four types and the error-rendering path); the C07 clauses are evaluated on every datagram the server accepts (prepared-iff, type, version, mid, token, default-code, clean), around every apply_from_error (error-preserves, error-result) and at the clients (match: the request a reply is attributed to by message id/token is the one it was produced for, with up to 2 outstanding requests per endpoint and reordering/duplication on). Non-trivial = in-premise transfers with >= 2 exchanges (as C08/C09); distinct likewise.",
            assumptions: &["message ids and tokens are seeded samples of the 16-bit x 0-8 byte space, not its exhaustive product"],
            real: REAL_BLOCK,
            stub: STUB_BLOCK,
        },
        PropCfg {
            id: "C02",
            family: "wire",
            level: "exploration",
            quick_runs: 150_000,
            thorough_runs: 2_000_000,
            rule: WIRE_RULE,
            assumptions: WIRE_ASSUME,
            real: REAL_BLOCK,
            stub: STUB_WIRE,
        },
        PropCfg {
            id: "C03",
            family: "wire",
            level: "exploration",
            quick_runs: 150_000,
            thorough_runs: 2_000_000,
            rule: WIRE_RULE,
            assumptions: WIRE_ASSUME,
            real: REAL_BLOCK,
            stub: STUB_WIRE,
        },
        PropCfg {
            id: "C11",
            family: "hostile",
            level: "exploration",
            quick_runs: 120_000,
            thorough_runs: 5_000_000,
            rule: "One evaluation = one seeded simulated run of the `hostile` family: 1-3 hostile senders with 1-8 parseable adversarial requests each (option bloat 0-1400 bytes, Block1/Block2 with num in {0,1,2,16,17,100,1023..1025,4095} x szx 0-7 x more, malformed block option bytes, payloads 0-1200, all four message types, unknown methods, invalid UTF-8 paths), adversarial application replies (large options, own Block2, bodies 0-10000), budgets {0..64, 1152, 0..5000, request overhead+11/+12/+13, overhead+12+2^k+-1}, mixed into cooperative transfers on the same keys (half of the hostile lanes share a cooperative client's endpoint), with link corruption on. Every handler entry is wrapped in catch_unwind; hook snapshots of the per-key upload buffer are taken around every intercept_request. Distinct non-trivial = distinct abstract descriptors of hostile or corrupted requests fed to the handler: (type, method, Block1 class, Block2 class, payload bucket, overhead+12 vs budget relation, overhead>1280, handler outcome).",
            assumptions: &["uses the cfg(coap_lite_verif) snapshot hook for the buffer-growth clauses", "sampling: a clean batch is evidence, not proof"],
            real: REAL_BLOCK,
            stub: STUB_WIRE,
        },
        PropCfg {
            id: "C18",
            family: "sink",
            level: "fault_enumeration",
            quick_runs: 30_000,
            thorough_runs: 1_000_000,
            rule: "Documents (0-4 links x 0-4 attributes, all four attribute writers, values over an alphabet of quotes, backslashes, separators, angle brackets, spaces, newlines and 2/3/4-byte characters, newline option on/off) are sampled by seed; for EACH document the fault space is swept completely: every index k of the write calls the fault-free run issues x {fail only call k, fail call k and all later ones, torn write: call k accepts a prefix on a char boundary then fails}. One evaluation = one faulted write of one document (plus one fault-free write per document). Distinct non-trivial = distinct (document, fault position k, fault mode) triples, counted as 3 x write calls per distinct document; distinct_secondary = distinct (kind of write call hit, mode, newline option, first/later link) classes. Added later: 1 document in 40 has 250-310 (mostly bare) links, 1 quoted value in 10 has 40-140 characters; and the fault-free output must read back, with an independent tolerant RFC 6690 reader, as exactly the document's links and attributes (clause ok-complete).",
            assumptions: &["exhaustive per sampled document, not over documents (coverage.exhaustive=false refers to the property)", "fmt::Write sinks fail only by returning Err from write_str"],
            real: &["coap_lite::link_format::LinkFormatWrite / LinkAttributeWrite (link, attr, attr_quoted, attr_u32, attr_u16, finish)"],
            stub: &["fmt::Write sink with injected failures (fail once / fail from / torn)", "document generator"],
        },
        PropCfg {
            id: "C14",
            family: "observe",
            level: "exploration",
            quick_runs: 100_000,
            thorough_runs: 3_000_000,
            rule: OBS_RULE,
            assumptions: OBS_ASSUME,
            real: OBS_REAL,
            stub: OBS_STUB,
        },
        PropCfg {
            id: "C15",
            family: "observe",
            level: "exploration",
            quick_runs: 100_000,
            thorough_runs: 3_000_000,
            rule: OBS_RULE,
            assumptions: OBS_ASSUME,
            real: OBS_REAL,
            stub: OBS_STUB,
        },
        PropCfg {
            id: "C20",
            family: "expiry",
            level: "exploration",
            quick_runs: 60_000,
            thorough_runs: 1_500_000,
            rule: "One evaluation = one seeded simulated run of the `expiry` family: cache_expiry_duration drawn from {20-60 ms, 1 s, 120 s, 1 h, 49 days}; an observed download (cached response) or upload (buffered prefix) of 3-8 blocks is paused before each exchange for an idle gap drawn relative to the expiry (0, 1/10, 1/2, expiry-1ns, expiry, expiry+1ns, 4x, 1000x, or a chain of gaps each 0.6x); meanwhile 0-2000 noise requests (on up to 12 hot keys, or one distinct key per request), requests of the observed endpoint itself with another method on the same path, and 0-50 abandoned transfers of other endpoints touch the handler. The fixed-latency network makes arrival-time differences exact, so the reference model (key -> last touch) is two-sided and exact: alive iff idle < expiry, expired iff idle > expiry, either at equality. After every handler call (every 97th, and every call of the observed endpoint, in the runs with more than 64 live keys) the hook snapshot of physically held entries (clock rewound to 0 for the read) is compared with the model. Non-trivial = runs whose observed transfer had at least one non-zero idle gap evaluated; distinct = distinct (kind, per-gap class and bucket relative to the expiry) sequences, counted by 64-bit hash.",
            assumptions: &[
                "the handler reads time through lru_time_cache's clock type (replaced by the simulator's) or through the C library's clock_gettime (defined by the simulator, answered with simulated time during a run); canary: a run in which the handler reads neither aborts the check with exit 2, not 1",
                "uses the cfg(coap_lite_verif) snapshot hook for the held-entries comparison",
                "at idle == expiry exactly both outcomes are accepted",
            ],
            real: REAL_BLOCK,
            stub: STUB_BLOCK,
        },
        PropCfg {
            id: "C12",
            family: "isolation+isolation+hostile+blockwise",
            level: "exploration",
            quick_runs: 300_000,
            thorough_runs: 5_000_000,
            rule: "The first choice picks the family: `isolation` (2 of 4) or `hostile` / `blockwise` (1 of 4 each; there only the reply-ids clause - every reply the handler produces, including error replies and cached blocks, carries the message id and token of the request being answered - is C12's). One evaluation of the `isolation` family: 2-3 scripted transfers (uploads incl. upload-then-download, or downloads incl. early negotiation; 2-5 blocks; scripted reply losses with retransmission and duplicated blocks) whose cache keys pairwise differ in exactly one of endpoint / method / path (segmentation [a,b] vs [a/b], prefixes, case, empty path vs one empty segment) are interleaved by a seeded scheduler (uniform or PCT-style priorities with change points; optionally split-phase: request, other clients' exchanges, then application + response), and each is re-run solo against a fresh handler; reply transcripts must be byte-identical. Non-trivial = runs with at least one switch between transfers; distinct = distinct (shape, server-step order) interleavings by 64-bit hash. coverage.reached_vs_possible gives reached/possible for the 2-transfer, non-split shapes (possible = binomial(n1+n2, n1)). Added later: 1/3 of the isolation runs are timed (expiry 40-100 ms, clock jumps of 0.3-0.9 expiry between server steps; the solo run of a client replays the simulated times and split-phase decisions that client had in the interleaved run), 1/10 use 20-64 KiB representations in 1024-byte blocks with clients that walk away after 3-6 exchanges.",
            assumptions: &[
                "the property's quantifier says 'exhaustively enumerated'; this technique samples: exhaustive=false, reached/possible reported per shape",
                "client behaviour is a function of its materialised script and of the replies it receives (no timers, no latencies in this family)",
                "the application stub is deterministic per (endpoint, method, path, invocation count)",
            ],
            real: REAL_BLOCK,
            stub: &["scheduler (which client's next datagram the server processes; split-phase points)", "client state machines with scripted losses / duplicates", "server loop glue", "application"],
        },
    ]
}

const OBS_RULE: &str = "Two thirds of the runs: a server loop around the real Subject/create_notification with 2-5 observer clients (register, re-register with a new token, deregister with the current or a stale token, ACK with probability 0-100%, go silent, bogus ACKs with unknown / other endpoints' / stale message ids), 1-3 resource paths, limit drawn from {0,1,2,3,10,254,255}, 1-40 notification rounds (260-600 in long runs, which reach the 8-bit counter edge) with per-round CON/NON, over links with drop/dup/delay. One evaluation = one operation the server performed on the Subject, after which the full registry (with the hook also the private counters) is compared with the reference model (refinement). Distinct non-trivial = distinct abstract registry states reached (per path: observer count, multiset of min(unacked, limit+1, 6), number of pending acknowledgements; limit class); distinct_secondary = distinct operation bigrams. One third of the runs are direct short histories (1-8 operations over 2 endpoints x 2 tokens x 2 paths (+ an unobserved one) x 2 message ids x {CON,NON}, limits 0-2, applied without a network; coverage.reached_vs_possible reports how many of the possible histories of depth 1-4 were reached). About a quarter of the network runs and 4% of the direct operations change the limit mid-history (set_unacknowledged_limit; tolerant model). Thorough tier: additionally 70 000-round marathons (sequence crosses 65 536). Added later: 1 network run in 25 has a crowd of 17-48 observers.";
const OBS_ASSUME: &[&str] = &[
    "uses the cfg(coap_lite_verif) Observer accessors to compare private counters; without them only observer lists and eviction rounds are compared",
    "resource absent and resource without observers are treated as equal, except for a path nobody ever registered for",
    "sampled histories, not the exhaustive depth-5/6 enumeration of the property's quantifier",
];
const OBS_REAL: &[&str] = &["coap_lite::Subject::{register, deregister, resource_changed, acknowledge, get_resource, get_resource_observers, set_unacknowledged_limit}", "coap_lite::create_notification", "coap_lite::Packet::from_bytes / to_bytes_unlimited", "coap_lite::CoapRequest::{from_packet, get_path, get_observe_flag, set_observe_flag}"];
const OBS_STUB: &[&str] = &["network (SimNet: drop, dup, delay)", "observer clients", "server notification loop (written from the doc comment on resource_changed)", "reference model of the registry"];

const WIRE_RULE: &str = "One evaluation = one seeded simulated run of the `wire` family: block-wise traffic with option sets on the delta/length codec boundaries plus a byzantine sender crosses links that truncate, flip, set, insert, delete bytes and append garbage (1-2 steps per affected datagram); half of the clients sit behind a forwarding proxy that parses and re-serialises; 1 in 80 byzantine datagrams sits in the 64 KiB corner (16-bit extended length 0xFEF1..0xFFFF with the whole value present). The reference parser (three-valued verdict) is compared with Packet::from_bytes on every datagram any node parses (counters wire.ref.* give the number of datagrams). Distinct non-trivial = distinct datagram classes reached: hash of (reference verdict class, failing grammar production, nibble classes seen for delta and for length, option count capped at 6, TKL, marker presence, payload length capped at 3). Added later: 1 byzantine datagram in 6 is a well-formed message whose recognised options and payload carry values that a normalising parser would touch (content formats with BOM / white space / NUL at either end of the payload, URIs with upper case, dot segments, percent escapes, default ports; integers with leading zeros).";
const WIRE_ASSUME: &[&str] = &[
    "narrowed quantifier: byte strings reachable from generated well-formed traffic by <= 2 corruption steps, plus structured-random and raw random strings, plus 64 KiB-corner datagrams; not every byte string",
    "the reference parser was written from RFC 7252 section 3 independently of src/packet.rs",
    "this is a weak fit for the technique (both properties are functions of one byte string); the simulator contributes the fault kinds that produce the inputs and the continuation into the real server pipeline",
];
const STUB_WIRE: &[&str] = &["network (SimNet incl. truncation / bit flip / byte set / insert / delete / tail garbage)", "forwarding proxy loop", "byzantine sender", "client state machines", "server loop glue", "application"];

fn run_family(family: &str, ch: &mut Ch, verbose: bool) -> Result<Outcome, String> {
    if family.contains('+') {
        // several families serve this property: the first choice of the
        // stream picks one, so replay and minimisation need nothing extra
        let parts: Vec<&str> = family.split('+').collect();
        let i = ch.below(parts.len() as u64, "family") as usize;
        let mut o = run_family(parts[i], ch, verbose)?;
        o.stats.hit(match parts[i] {
            "blockwise" => "family.blockwise",
            "directed" => "family.directed",
            "wire" => "family.wire",
            "hostile" => "family.hostile",
            "isolation" => "family.isolation",
            "observe" => "family.observe",
            "expiry" => "family.expiry",
            _ => "family.other",
        });
        return Ok(o);
    }
    // from here to the end of the run, this thread's reads of the OS clocks
    // are answered with simulated time (see clockshim.rs)
    let _sim = clockshim::enter();
    match family {
        "blockwise" => Ok(fam_block::run(ch, verbose)),
        "directed" => Ok(fam_directed::run(ch, verbose)),
        "wire" => Ok(fam_wire::run(ch, verbose)),
        "hostile" => Ok(fam_hostile::run(ch, verbose)),
        "sink" => Ok(fam_sink::run(ch, verbose)),
        "observe" => Ok(fam_observe::run(ch, verbose)),
        "expiry" => Ok(fam_expiry::run(ch, verbose)),
        "isolation" => Ok(fam_isolation::run(ch, verbose)),
        _ => Err(format!("unknown family {}", family)),
    }
}

#[derive(Clone, Debug)]
struct Known {
    prop: String,
    clause: String,
    sig: String,
    status: String,
    what: String,
}

fn load_known(path: &str) -> Result<Vec<Known>, String> {
    let text = match std::fs::read_to_string(path) {
        Ok(t) => t,
        Err(_) => return Ok(vec![]),
    };
    let j = json::parse(&text)?;
    let mut v = Vec::new();
    if let Some(arr) = j.get("findings").and_then(|a| a.as_arr()) {
        for e in arr {
            v.push(Known {
                prop: e.get("property").and_then(|x| x.as_str()).unwrap_or("").to_string(),
                clause: e.get("clause").and_then(|x| x.as_str()).unwrap_or("").to_string(),
                sig: e.get("signature").and_then(|x| x.as_str()).unwrap_or("").to_string(),
                status: e.get("status").and_then(|x| x.as_str()).unwrap_or("").to_string(),
                what: e.get("what_fails").and_then(|x| x.as_str()).unwrap_or("").to_string(),
            });
        }
    }
    Ok(v)
}

fn is_known(known: &[Known], v: &Violation) -> Option<usize> {
    known.iter().position(|k| k.status == "open" && k.prop == v.prop && k.clause == v.clause && k.sig == v.sig)
}

struct Agg {
    stats: Stats,
    runs: u64,
    units: u64,
    faulty_runs: u64,
    sim_ns: u128,
    nontrivial: BTreeSet<u64>,
    distinct2: BTreeSet<u64>,
    hashes: BTreeMap<u64, u64>,
    new_viol: BTreeMap<u64, Violation>,
    known_hits: BTreeMap<usize, u64>,
    other_props: BTreeMap<String, u64>,
    groups: BTreeMap<String, BTreeSet<u64>>,
    weighted: BTreeMap<u64, u64>,
}

impl Agg {
    fn new() -> Agg {
        Agg {
            stats: Stats::default(),
            runs: 0,
            units: 0,
            faulty_runs: 0,
            sim_ns: 0,
            nontrivial: BTreeSet::new(),
            distinct2: BTreeSet::new(),
            hashes: BTreeMap::new(),
            new_viol: BTreeMap::new(),
            known_hits: BTreeMap::new(),
            other_props: BTreeMap::new(),
            groups: BTreeMap::new(),
            weighted: BTreeMap::new(),
        }
    }
    fn merge(&mut self, o: Agg) {
        self.stats.merge(&o.stats);
        self.runs += o.runs;
        self.units += o.units;
        self.faulty_runs += o.faulty_runs;
        self.sim_ns += o.sim_ns;
        self.nontrivial.extend(o.nontrivial);
        self.distinct2.extend(o.distinct2);
        self.hashes.extend(o.hashes);
        for (k, v) in o.new_viol {
            self.new_viol.entry(k).or_insert(v);
        }
        for (k, v) in o.known_hits {
            *self.known_hits.entry(k).or_insert(0) += v;
        }
        for (k, v) in o.other_props {
            *self.other_props.entry(k).or_insert(0) += v;
        }
        for (k, v) in o.groups {
            self.groups.entry(k).or_default().extend(v);
        }
        self.weighted.extend(o.weighted);
    }
}

/// Liveness bound of the harness: a simulated run takes milliseconds (a few
/// seconds at most); one that is still going after this much wall-clock time
/// means that a call into the crate does not return.  The watchdog reports
/// the run (by its seed, which regenerates it) and ends the process, since a
/// stuck thread cannot be stopped.  Wall-clock time is read only here; it
/// decides nothing inside a run.
fn stall_secs() -> u64 {
    std::env::var("VERIF_STALL_SECS").ok().and_then(|s| s.parse().ok()).unwrap_or(300)
}
static STALL_CTX: Mutex<Option<(String, String, String)>> = Mutex::new(None);

fn report_stall(family: &str, base_seed: u64, run: u64) -> ! {
    let ctx = STALL_CTX.lock().map(|g| g.clone()).unwrap_or(None);
    let detail = format!("run {} (seed {}) of family {} did not finish within {} s of wall-clock time (a run takes milliseconds): a call into the crate does not return", run, run_seed(base_seed, run), family, stall_secs());
    match ctx {
        Some((prop, dir, profile)) => {
            let _ = std::fs::create_dir_all(&dir);
            let path = format!("{}/{}-{}-{}.json", dir, prop, base_seed, run);
            let j = J::obj()
                .set("property", J::s(prop.clone()))
                .set("clause", J::s("terminates"))
                .set("signature", J::s("stalled"))
                .set("detail", J::s(detail.clone()))
                .set("family", J::s(family))
                .set("profile", J::s(profile))
                .set("tier", J::s(if thorough() { "thorough" } else { "quick" }))
                .set("seed", J::u(base_seed))
                .set("run_index", J::u(run))
                .set("run_seed", J::u(run_seed(base_seed, run)))
                .set("repo_rev", J::s(repo_rev()))
                .set("stalled", J::Bool(true))
                .set("choices", J::Arr(vec![]));
            let _ = std::fs::write(&path, j.to_string_pretty());
            println!("VIOLATION property={} replay={}", prop, path);
            println!("  clause {}/terminates [stalled]: {}", prop, detail);
            std::process::exit(1);
        }
        None => {
            eprintln!("coapsim: harness error: {}", detail);
            std::process::exit(2);
        }
    }
}

fn batch(family: &str, prop: Option<&str>, base_seed: u64, runs: u64, threads: usize, known: &[Known], keep_hashes: bool, deadline: Option<Instant>) -> Result<Agg, String> {
    let next = AtomicU64::new(0);
    let t0 = Instant::now();
    let cur: Vec<AtomicU64> = (0..threads).map(|_| AtomicU64::new(0)).collect();
    let since: Vec<AtomicU64> = (0..threads).map(|_| AtomicU64::new(0)).collect();
    let finished = AtomicU64::new(0);
    // once this many runs have violated the property the verdict is settled:
    // stop early (matters when a defect also makes every run slow)
    let failing_runs = AtomicU64::new(0);
    const ENOUGH_FAILING_RUNS: u64 = 200;
    let total = Mutex::new(Agg::new());
    let err: Mutex<Option<String>> = Mutex::new(None);
    std::thread::scope(|s| {
        // watchdog
        s.spawn(|| {
            let limit_ms = stall_secs() * 1000;
            while finished.load(Ordering::Relaxed) < threads as u64 {
                std::thread::sleep(std::time::Duration::from_millis(200));
                let now = t0.elapsed().as_millis() as u64;
                for t in 0..threads {
                    let c = cur[t].load(Ordering::Relaxed);
                    if c != 0 && now.saturating_sub(since[t].load(Ordering::Relaxed)) > limit_ms && cur[t].load(Ordering::Relaxed) == c {
                        report_stall(family, base_seed, c - 1);
                    }
                }
            }
        });
        for t in 0..threads {
            let (cur, since, finished) = (&cur, &since, &finished);
            let (next, failing_runs, total, err) = (&next, &failing_runs, &total, &err);
            s.spawn(move || {
                let mut a = Agg::new();
                struct Fin<'a>(&'a AtomicU64);
                impl Drop for Fin<'_> {
                    fn drop(&mut self) {
                        self.0.fetch_add(1, Ordering::Relaxed);
                    }
                }
                let _fin = Fin(finished);
                loop {
                    cur[t].store(0, Ordering::Relaxed);
                    let i = next.fetch_add(1, Ordering::Relaxed);
                    if i >= runs || failing_runs.load(Ordering::Relaxed) >= ENOUGH_FAILING_RUNS {
                        break;
                    }
                    since[t].store(t0.elapsed().as_millis() as u64, Ordering::Relaxed);
                    cur[t].store(i + 1, Ordering::Relaxed);
                    if let Some(d) = deadline {
                        if i % 256 == 0 && Instant::now() > d {
                            break;
                        }
                    }
                    let mut ch = Ch::seeded(run_seed(base_seed, i));
                    let o = match guard(|| run_family(family, &mut ch, false)) {
                        Ok(Ok(o)) => o,
                        Ok(Err(e)) => {
                            *err.lock().unwrap() = Some(e);
                            break;
                        }
                        Err(msg) => {
                            *err.lock().unwrap() = Some(format!("harness panic in run {} (seed {}): {}", i, run_seed(base_seed, i), msg));
                            break;
                        }
                    };
                    if let Some(e) = &o.harness_error {
                        *err.lock().unwrap() = Some(format!("run {} (seed {}): {}", i, run_seed(base_seed, i), e));
                        break;
                    }
                    a.runs += 1;
                    a.units += o.units;
                    a.faulty_runs += o.faulty_cfg as u64;
                    a.sim_ns += o.sim_ns as u128;
                    a.stats.merge(&o.stats);
                    a.nontrivial.extend(o.nontrivial.iter().copied());
                    a.distinct2.extend(o.distinct2.iter().copied());
                    if keep_hashes {
                        a.hashes.insert(i, o.hash);
                    }
                    for (g, h) in &o.groups {
                        a.groups.entry(g.clone()).or_default().insert(*h);
                    }
                    a.weighted.extend(o.weighted.iter().copied());
                    for v in &o.violations {
                        if prop.map_or(true, |p| p == v.prop) {
                            match is_known(known, v) {
                                Some(k) => *a.known_hits.entry(k).or_insert(0) += 1,
                                None => {
                                    if !a.new_viol.contains_key(&i) {
                                        failing_runs.fetch_add(1, Ordering::Relaxed);
                                    }
                                    a.new_viol.entry(i).or_insert_with(|| v.clone());
                                }
                            }
                        } else {
                            *a.other_props.entry(format!("{}/{}", v.prop, v.clause)).or_insert(0) += 1;
                        }
                    }
                }
                cur[t].store(0, Ordering::Relaxed);
                total.lock().unwrap().merge(a);
            });
        }
    });
    if let Some(e) = err.into_inner().unwrap() {
        return Err(e);
    }
    Ok(total.into_inner().unwrap())
}

/// Does replaying `list` still produce the same violation class?
fn reproduces(family: &str, list: &[u64], prop: &str, clause: &str, sig: &str) -> Option<(Violation, Vec<u64>)> {
    let mut ch = Ch::replay(list.to_vec());
    let o = guard(|| run_family(family, &mut ch, false)).ok()?.ok()?;
    let used = ch.rec.len().min(list.len());
    o.violations.into_iter().find(|v| v.prop == prop && v.clause == clause && v.sig == sig).map(|v| (v, list[..used].to_vec()))
}

fn minimise(family: &str, mut list: Vec<u64>, v: &Violation, budget: usize) -> (Vec<u64>, usize) {
    let mut tries = 0usize;
    let ok = |cand: &[u64], tries: &mut usize| -> Option<Vec<u64>> {
        *tries += 1;
        reproduces(family, cand, v.prop, v.clause, &v.sig).map(|(_, used)| used)
    };
    // trailing choices that are never consumed go first
    if let Some(used) = ok(&list, &mut tries) {
        list = used;
    } else {
        return (list, tries);
    }
    let mut improved = true;
    while improved && tries < budget {
        improved = false;
        for bs in [64usize, 16, 8, 4, 2, 1] {
            let mut i = list.len();
            while i > 0 && tries < budget {
                let start = i.saturating_sub(bs);
                let mut cand = list.clone();
                cand.drain(start..i);
                if let Some(used) = ok(&cand, &mut tries) {
                    list = used;
                    improved = true;
                    i = start.min(list.len());
                } else {
                    i = start;
                }
            }
        }
        let mut i = 0;
        while i < list.len() && tries < budget {
            if list[i] != 0 {
                for nv in [0, list[i] / 2, list[i] - 1] {
                    if nv >= list[i] {
                        continue;
                    }
                    let mut cand = list.clone();
                    cand[i] = nv;
                    if let Some(used) = ok(&cand, &mut tries) {
                        list = used;
                        improved = true;
                        break;
                    }
                }
            }
            i += 1;
        }
    }
    (list, tries)
}

fn repo_rev() -> String {
    let out = std::process::Command::new("git").args(["-C", "/repo", "rev-parse", "--short", "HEAD"]).output();
    let mut s = out.ok().map(|o| String::from_utf8_lossy(&o.stdout).trim().to_string()).unwrap_or_default();
    let dirty = std::process::Command::new("git").args(["-C", "/repo", "status", "--porcelain", "--untracked-files=no"]).output();
    if dirty.ok().map_or(false, |o| !o.stdout.is_empty()) {
        s.push_str("+dirty");
    }
    s
}

fn arg<'a>(args: &'a [String], name: &str) -> Option<&'a str> {
    args.iter().position(|a| a == name).and_then(|i| args.get(i + 1)).map(|s| s.as_str())
}

fn write_replay(dir: &str, family: &str, profile: &str, seed: u64, run: u64, v: &Violation, list: &[u64], original_len: usize, tries: usize) -> Result<String, String> {
    std::fs::create_dir_all(dir).map_err(|e| e.to_string())?;
    // verbose re-run for the human-readable trace
    let mut ch = Ch::replay(list.to_vec());
    ch.keep_labels = true;
    let o = guard(|| run_family(family, &mut ch, true)).map_err(|e| e)??;
    let labels: Vec<J> = ch.labels.iter().zip(ch.rec.iter()).map(|(l, v)| J::s(format!("{}={}", l, v))).collect();
    let path = format!("{}/{}-{}-{}.json", dir, v.prop, seed, run);
    let j = J::obj()
        .set("property", J::s(v.prop))
        .set("clause", J::s(v.clause))
        .set("signature", J::s(v.sig.clone()))
        .set("detail", J::s(v.detail.clone()))
        .set("family", J::s(family))
        .set("profile", J::s(profile))
        .set("tier", J::s(if thorough() { "thorough" } else { "quick" }))
        .set("seed", J::u(seed))
        .set("run_index", J::u(run))
        .set("run_seed", J::u(run_seed(seed, run)))
        .set("repo_rev", J::s(repo_rev()))
        .set("choices", J::Arr(list.iter().map(|x| J::u(*x)).collect()))
        .set("original_choice_count", J::u(original_len as u64))
        .set("minimisation_candidates_tried", J::u(tries as u64))
        .set("choices_labelled", J::Arr(labels))
        .set("scenario", o.sample.clone().unwrap_or(J::Null))
        .set("trace", J::Arr(o.trace.iter().map(|l| J::s(l.clone())).collect()))
        .set("all_violations_in_replay", J::Arr(o.violations.iter().map(|x| J::s(format!("{}/{} [{}]: {}", x.prop, x.clause, x.sig, x.detail))).collect()));
    std::fs::write(&path, j.to_string_pretty()).map_err(|e| e.to_string())?;
    Ok(path)
}

fn cmd_run(args: &[String]) -> Result<i32, String> {
    let prop_id = arg(args, "--prop").ok_or("--prop required")?;
    let all = props();
    let pc = all.iter().find(|p| p.id == prop_id).ok_or_else(|| format!("no check for property {}", prop_id))?;
    let tier = arg(args, "--tier").map(|s| s.to_string()).or_else(|| std::env::var("VERIF_TIER").ok()).unwrap_or_else(|| "quick".into());
    let tier = if tier == "thorough" { "thorough" } else { "quick" };
    set_thorough(tier == "thorough");
    let seed: u64 = match arg(args, "--seed").map(|s| s.to_string()).or_else(|| std::env::var("VERIF_SEED").ok()) {
        Some(s) => s.trim().parse().map_err(|_| format!("bad seed {:?}", s))?,
        None => DEFAULT_SEED,
    };
    let runs: u64 = match arg(args, "--runs") {
        Some(r) => r.parse().map_err(|_| "bad --runs")?,
        None => {
            if tier == "thorough" {
                pc.thorough_runs
            } else {
                pc.quick_runs
            }
        }
    };
    let threads: usize = arg(args, "--threads").and_then(|t| t.parse().ok()).unwrap_or_else(|| std::thread::available_parallelism().map(|n| n.get()).unwrap_or(4));
    let profile = arg(args, "--profile").unwrap_or("simchk");
    let known_path = arg(args, "--known").unwrap_or("/verif/known_findings.json");
    let replays = arg(args, "--replays").unwrap_or("/verif/replays");
    let evidence = arg(args, "--evidence").map(|s| s.to_string()).unwrap_or_else(|| format!("/verif/evidence/{}.json", prop_id));
    let partial = args.iter().any(|a| a == "--partial");
    let merge: Vec<&str> = args.iter().enumerate().filter(|(_, a)| *a == "--merge").filter_map(|(i, _)| args.get(i + 1)).map(|s| s.as_str()).collect();
    let max_secs: Option<u64> = arg(args, "--max-secs").and_then(|s| s.parse().ok());
    let known = load_known(known_path)?;

    let family_override = arg(args, "--family").map(|s| s.to_string());
    let fam_static: &'static str = match family_override {
        Some(f) => Box::leak(f.into_boxed_str()),
        None => pc.family,
    };
    let pc = &PropCfg { id: pc.id, family: fam_static, level: pc.level, quick_runs: pc.quick_runs, thorough_runs: pc.thorough_runs, rule: pc.rule, assumptions: pc.assumptions, real: pc.real, stub: pc.stub };
    println!("coapsim: property={} family={} tier={} profile={} VERIF_SEED={} runs={} threads={} repo={}", prop_id, pc.family, tier, profile, seed, runs, threads, repo_rev());
    let t0 = Instant::now();
    let deadline = max_secs.map(|s| t0 + std::time::Duration::from_secs(s));
    *STALL_CTX.lock().unwrap() = Some((prop_id.to_string(), replays.to_string(), profile.to_string()));
    let agg = batch(pc.family, Some(prop_id), seed, runs, threads, &known, false, deadline)?;
    let wall = t0.elapsed().as_secs_f64();

    // known findings: one line each
    for (k, n) in &agg.known_hits {
        println!("KNOWN-FINDING: property={} {} [clause {} signature {}] (hit in {} evaluations)", known[*k].prop, known[*k].what, known[*k].clause, known[*k].sig, n);
    }
    // new violations: minimise and write replay files for the first few
    let mut exit = 0;
    let mut reported = Vec::new();
    let mut seen_classes: BTreeSet<(String, String)> = BTreeSet::new();
    for (run, v) in agg.new_viol.iter() {
        if !seen_classes.insert((v.clause.to_string(), v.sig.clone())) || reported.len() >= 3 {
            continue;
        }
        let mut ch = Ch::seeded(run_seed(seed, *run));
        let _ = guard(|| run_family(pc.family, &mut ch, false));
        let original = ch.rec.clone();
        let (min, tries) = minimise(pc.family, original.clone(), v, 3000);
        let vv = reproduces(pc.family, &min, v.prop, v.clause, &v.sig).map(|x| x.0).unwrap_or_else(|| v.clone());
        let path = write_replay(replays, pc.family, profile, seed, *run, &vv, &min, original.len(), tries)?;
        println!("VIOLATION property={} replay={}", prop_id, path);
        println!("  clause {}/{} [{}]: {}", vv.prop, vv.clause, vv.sig, vv.detail);
        println!("  run index {} (run seed {}), choices {} -> {} after {} minimisation candidates", run, run_seed(seed, *run), original.len(), min.len(), tries);
        reported.push(path);
        exit = 1;
    }
    if !agg.new_viol.is_empty() {
        println!("  {} of {} runs violated {}", agg.new_viol.len(), agg.runs, prop_id);
    }

    // samples: the first three runs, verbose
    let mut samples = Vec::new();
    for i in 0..3u64.min(agg.runs) {
        let mut ch = Ch::seeded(run_seed(seed, i));
        if let Ok(Ok(o)) = guard(|| run_family(pc.family, &mut ch, true)) {
            let mut s = o.sample.unwrap_or(J::obj());
            s.put("run_index", J::u(i));
            s.put("trace_head", J::Arr(o.trace.iter().take(12).map(|l| J::s(l.clone())).collect()));
            samples.push(s);
        }
    }

    let distinct_total = agg.nontrivial.len() as u64 + agg.weighted.values().sum::<u64>();
    let faults: BTreeMap<String, u64> = agg.stats.m.iter().filter(|(k, _)| k.starts_with("fault.")).map(|(k, v)| (k[6..].to_string(), *v)).collect();
    let probes: BTreeMap<String, u64> = agg.stats.m.iter().filter(|(k, _)| k.starts_with("probe.")).map(|(k, v)| (k[6..].to_string(), *v)).collect();
    let counters: BTreeMap<String, u64> = agg.stats.m.iter().filter(|(k, _)| !k.starts_with("probe.") && !k.starts_with("fault.")).map(|(k, v)| (k.to_string(), *v)).collect();
    let mut cov = J::obj()
        .set("evaluations", J::u(agg.units))
        .set("simulated_runs", J::u(agg.runs))
        .set("distinct_nontrivial", J::u(distinct_total))
        .set("rule", J::s(pc.rule))
        .set("samples", J::Arr(samples))
        .set("exhaustive", J::Bool(false))
        .set("family", J::s(pc.family))
        .set("profile", J::s(profile))
        .set("runs_requested", J::u(runs))
        .set("runs_per_hour", J::u(if wall > 0.0 { (agg.runs as f64 / wall * 3600.0) as u64 } else { 0 }))
        .set("seeds", J::s(format!("VERIF_SEED={} -> run_seed(VERIF_SEED, i) for i in 0..{}", seed, agg.runs)))
        .set("simulated_seconds", J::Num(agg.sim_ns as f64 / 1e9))
        .set("faulty_configuration_runs", J::u(agg.faulty_runs))
        .set("fault_free_configuration_runs", J::u(agg.runs - agg.faulty_runs))
        .set("faults_fired", J::map_u64(&faults))
        .set("probes", J::map_u64(&probes))
        .set("counters", J::map_u64(&counters))
        .set("distinct_secondary", J::u(agg.distinct2.len() as u64))
        .set("components", J::obj().set("real", J::Arr(pc.real.iter().map(|s| J::s(*s)).collect())).set("stub", J::Arr(pc.stub.iter().map(|s| J::s(*s)).collect())))
        .set("known_findings_hit", J::Obj(agg.known_hits.iter().map(|(k, n)| (format!("{}/{}[{}]", known[*k].prop, known[*k].clause, known[*k].sig), J::u(*n))).collect()))
        .set("violations_of_other_properties_seen", J::Obj(agg.other_props.iter().map(|(k, n)| (k.clone(), J::u(*n))).collect()))
        .set("replay_files", J::Arr(reported.iter().map(|p| J::s(p.clone())).collect()))
        .set("repo_rev", J::s(repo_rev()));
    if !agg.groups.is_empty() {
        // interleavings reached / possible per shape (2 transfers: binomial)
        let mut arr = Vec::new();
        let (mut reached_all, mut possible_all) = (0u64, 0u64);
        for (g, set) in &agg.groups {
            let nums: Vec<u64> = g.split(|c: char| !c.is_ascii_digit()).filter(|x| !x.is_empty()).filter_map(|x| x.parse().ok()).collect();
            let possible = if g.starts_with("direct histories of depth") && nums.len() == 1 {
                // limit (3) x per step: kind 4 x endpoint 2 x token 2 x path 3 x mid 2 x con 2
                3u64.saturating_mul(192u64.saturating_pow(nums[0] as u32))
            } else if nums.len() >= 3 {
                let (a, b) = (nums[1], nums[2]);
                let mut c: u128 = 1;
                for k in 0..a.min(b) {
                    c = c * ((a + b - k) as u128) / ((k + 1) as u128);
                }
                c as u64
            } else {
                0
            };
            reached_all += set.len() as u64;
            possible_all += possible;
            arr.push(J::obj().set("shape", J::s(g.clone())).set("reached", J::u(set.len() as u64)).set("possible", J::u(possible)));
        }
        cov.put("reached_vs_possible", J::obj().set("reached", J::u(reached_all)).set("possible", J::u(possible_all)).set("per_shape", J::Arr(arr)));
    }
    let mut evaluations = agg.units;
    let mut violations = agg.new_viol.len() as u64;
    let mut wall_total = wall;
    // merge partial results of other profiles
    let mut profiles = vec![J::obj().set("profile", J::s(profile)).set("evaluations", J::u(agg.units)).set("distinct_nontrivial", J::u(distinct_total)).set("wall_s", J::Num(wall))];
    for m in merge {
        if let Ok(text) = std::fs::read_to_string(m) {
            if let Ok(pj) = json::parse(&text) {
                let pe = pj.get("coverage").and_then(|c| c.get("evaluations")).and_then(|x| x.as_u64()).unwrap_or(0);
                let pd = pj.get("coverage").and_then(|c| c.get("distinct_nontrivial")).and_then(|x| x.as_u64()).unwrap_or(0);
                let pv = pj.get("violations").and_then(|x| x.as_u64()).unwrap_or(0);
                let pw = match pj.get("wall_s") {
                    Some(J::Num(f)) => *f,
                    Some(J::Int(i)) => *i as f64,
                    _ => 0.0,
                };
                evaluations += pe;
                violations += pv;
                wall_total += pw;
                profiles.push(
                    J::obj()
                        .set("profile", pj.get("coverage").and_then(|c| c.get("profile")).cloned().unwrap_or(J::Null))
                        .set("evaluations", J::u(pe))
                        .set("distinct_nontrivial", J::u(pd))
                        .set("wall_s", J::Num(pw))
                        .set("faults_fired", pj.get("coverage").and_then(|c| c.get("faults_fired")).cloned().unwrap_or(J::Null))
                        .set("probes", pj.get("coverage").and_then(|c| c.get("probes")).cloned().unwrap_or(J::Null)),
                );
            }
            let _ = std::fs::remove_file(m);
        }
    }
    cov.put("evaluations", J::u(evaluations));
    cov.put("profiles", J::Arr(profiles));
    let ev = J::obj()
        .set("property_id", J::s(prop_id))
        .set("tier", J::s(tier))
        .set("seed", J::u(seed))
        .set("level", J::s(pc.level))
        .set("coverage", cov)
        .set("assumptions", J::Arr(pc.assumptions.iter().map(|s| J::s(*s)).collect()))
        .set("wall_s", J::Num(wall_total))
        .set("violations", J::u(violations));
    let target = if partial { format!("{}.partial-{}", evidence, profile) } else { evidence.clone() };
    if let Some(dir) = std::path::Path::new(&target).parent() {
        let _ = std::fs::create_dir_all(dir);
    }
    std::fs::write(&target, ev.to_string_pretty()).map_err(|e| format!("writing {}: {}", target, e))?;
    println!(
        "coapsim: {} runs in {:.1}s ({} runs/h), {} distinct non-trivial, {:.0} simulated s, faults fired {:?}, new violations {}, known-finding hits {}",
        agg.runs,
        wall,
        if wall > 0.0 { (agg.runs as f64 / wall * 3600.0) as u64 } else { 0 },
        distinct_total,
        agg.sim_ns as f64 / 1e9,
        faults,
        agg.new_viol.len(),
        agg.known_hits.values().sum::<u64>()
    );
    Ok(exit)
}

fn cmd_replay(args: &[String]) -> Result<i32, String> {
    let path = args.get(0).ok_or("replay FILE")?;
    let text = std::fs::read_to_string(path).map_err(|e| format!("{}: {}", path, e))?;
    let j = json::parse(&text)?;
    let family = j.get("family").and_then(|x| x.as_str()).ok_or("no family")?;
    let prop = j.get("property").and_then(|x| x.as_str()).ok_or("no property")?.to_string();
    let clause = j.get("clause").and_then(|x| x.as_str()).ok_or("no clause")?.to_string();
    let sig = j.get("signature").and_then(|x| x.as_str()).unwrap_or(&clause).to_string();
    set_thorough(j.get("tier").and_then(|x| x.as_str()) == Some("thorough"));
    if j.get("stalled").is_some() {
        // a run that did not end: regenerate it from its seed under the same
        // liveness bound
        let rs = j.get("run_seed").and_then(|x| x.as_u64()).ok_or("no run_seed")?;
        let fam = family.to_string();
        let (tx, rx) = std::sync::mpsc::channel();
        std::thread::spawn(move || {
            let mut ch = Ch::seeded(rs);
            let r = guard(|| run_family(&fam, &mut ch, false));
            let _ = tx.send(r.is_ok());
        });
        return match rx.recv_timeout(std::time::Duration::from_secs(stall_secs())) {
            Ok(_) => {
                println!("replay of {} ended: the stall is not reproduced on this tree", path);
                Ok(0)
            }
            Err(_) => {
                println!("VIOLATION property={} replay={}", prop, path);
                println!("  reproduced clause {}/terminates [stalled]: the run (seed {}) does not end within {} s", prop, rs, stall_secs());
                std::process::exit(1);
            }
        };
    }
    let list: Vec<u64> = j.get("choices").and_then(|x| x.as_arr()).ok_or("no choices")?.iter().filter_map(|x| x.as_u64()).collect();
    let mut ch = Ch::replay(list);
    let o = guard(|| run_family(family, &mut ch, true)).map_err(|e| format!("harness panic: {}", e))??;
    for l in &o.trace {
        println!("{}", l);
    }
    println!("event-log hash {:016x}", o.hash);
    let hit = o.violations.iter().find(|v| v.prop == prop && v.clause == clause && v.sig == sig);
    match hit {
        Some(v) => {
            println!("VIOLATION property={} replay={}", prop, path);
            println!("  reproduced clause {}/{} [{}]: {}", v.prop, v.clause, v.sig, v.detail);
            Ok(1)
        }
        None => {
            println!("replay of {} did not reproduce {}/{} [{}] on this tree ({} other violations)", path, prop, clause, sig, o.violations.len());
            for v in &o.violations {
                println!("  other: {}/{} [{}]: {}", v.prop, v.clause, v.sig, v.detail);
            }
            Ok(0)
        }
    }
}

fn cmd_hashes(args: &[String]) -> Result<i32, String> {
    let family = arg(args, "--family").ok_or("--family required")?;
    let runs: u64 = arg(args, "--runs").and_then(|r| r.parse().ok()).unwrap_or(2000);
    let seed: u64 = arg(args, "--seed").and_then(|r| r.parse().ok()).unwrap_or(DEFAULT_SEED);
    let threads: usize = arg(args, "--threads").and_then(|t| t.parse().ok()).unwrap_or(4);
    let a = batch(family, None, seed, runs, threads, &[], true, None)?;
    let b = batch(family, None, seed, runs, (threads % 7) + 1, &[], true, None)?;
    let mut h = choices::Fnv::default();
    let mut diverged = 0;
    for (i, x) in &a.hashes {
        h.u64(*i);
        h.u64(*x);
        if b.hashes.get(i) != Some(x) {
            diverged += 1;
        }
    }
    println!("family={} runs={} seed={} threads={} digest={:016x} in-process-divergences={}", family, runs, seed, threads, h.0, diverged);
    Ok(if diverged == 0 { 0 } else { 2 })
}

fn main() {
    install_panic_hook();
    let args: Vec<String> = std::env::args().skip(1).collect();
    let r = match args.first().map(|s| s.as_str()) {
        Some("run") => cmd_run(&args[1..]),
        Some("replay") => cmd_replay(&args[1..]),
        Some("hashes") => cmd_hashes(&args[1..]),
        Some("families") => {
            let mut seen = BTreeSet::new();
            for p in props() {
                for f in p.family.split('+') {
                    if seen.insert(f) {
                        println!("{}", f);
                    }
                }
            }
            Ok(0)
        }
        _ => Err("usage: coapsim run|replay|hashes ...".into()),
    };
    match r {
        Ok(code) => std::process::exit(code),
        Err(e) => {
            eprintln!("coapsim: harness error: {}", e);
            std::process::exit(2);
        }
    }
}
