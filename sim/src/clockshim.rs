//! Second clock seam, at the C library boundary.  The block handler reads
//! time through `lru_time_cache`, whose clock type is replaced by the
//! simulator's (`sn_fake_clock`).  Code that reads the operating system's
//! clock directly (`std::time::Instant` / `SystemTime`, i.e. `clock_gettime`)
//! would be invisible to simulated time; this definition of `clock_gettime`
//! in the executable takes precedence over the C library's, and while a
//! simulated run is active on the calling thread it answers with the
//! simulated time.  Outside simulated runs (the batch runner's own timing,
//! other threads) it forwards to the real system call.
use std::cell::Cell;
use std::os::raw::{c_int, c_long};

#[repr(C)]
pub struct Timespec {
    tv_sec: i64,
    tv_nsec: i64,
}

extern "C" {
    fn syscall(num: c_long, ...) -> c_long;
}

thread_local! {
    static ACTIVE: Cell<bool> = const { Cell::new(false) };
    static READS: Cell<u64> = const { Cell::new(0) };
}

/// Simulated time 0 corresponds to this reading of the OS clocks (a machine
/// that has been up for a while: arithmetic such as `now - ttl` stays valid).
const BASE_S: i64 = 1_000_000;
#[cfg(target_arch = "x86_64")]
const SYS_CLOCK_GETTIME: c_long = 228;
#[cfg(target_arch = "aarch64")]
const SYS_CLOCK_GETTIME: c_long = 113;

#[no_mangle]
pub unsafe extern "C" fn clock_gettime(clk: c_int, ts: *mut Timespec) -> c_int {
    let active = ACTIVE.try_with(|a| a.get()).unwrap_or(false);
    if active && !ts.is_null() {
        let ns = sn_fake_clock::FakeClock::get_ns();
        (*ts).tv_sec = BASE_S + (ns / 1_000_000_000) as i64;
        (*ts).tv_nsec = (ns % 1_000_000_000) as i64;
        let _ = READS.try_with(|r| r.set(r.get() + 1));
        return 0;
    }
    syscall(SYS_CLOCK_GETTIME, clk as c_long, ts) as c_int
}

/// Brackets one simulated run on this thread.
pub struct Active;

pub fn enter() -> Active {
    ACTIVE.with(|a| a.set(true));
    READS.with(|r| r.set(0));
    Active
}

impl Drop for Active {
    fn drop(&mut self) {
        let _ = ACTIVE.try_with(|a| a.set(false));
    }
}

/// OS-clock reads answered with simulated time during the current run.
pub fn reads() -> u64 {
    READS.with(|r| r.get())
}
