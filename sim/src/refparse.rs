//! Independent reference parser for the RFC 7252 section 3 message framing,
//! written from the RFC (own integer widths: u32 option numbers, usize
//! lengths) with a three-valued verdict, so that a stricter but still
//! RFC-conformant parser is never reported.

#[derive(Clone, Debug, PartialEq)]
pub struct Fields {
    pub b0: u8,
    pub code: u8,
    pub mid: u16,
    pub token: Vec<u8>,
    /// (cumulative option number, value) in wire order
    pub opts: Vec<(u32, Vec<u8>)>,
    pub payload: Vec<u8>,
    /// index of the 0xFF marker, if any
    pub marker_pos: Option<usize>,
}

#[derive(Clone, Debug, PartialEq)]
pub enum Verdict {
    /// the grammar requires an error; the str names the production
    MustReject(&'static str),
    /// accepting and rejecting are both conformant; if accepted the fields
    /// must be these
    Either(&'static str, Fields),
    MustAccept(Fields),
}

impl Verdict {
    pub fn class(&self) -> (&'static str, &'static str) {
        match self {
            Verdict::MustReject(r) => ("must-reject", r),
            Verdict::Either(r, _) => ("either", r),
            Verdict::MustAccept(_) => ("must-accept", ""),
        }
    }
    pub fn fields(&self) -> Option<&Fields> {
        match self {
            Verdict::MustReject(_) => None,
            Verdict::Either(_, f) | Verdict::MustAccept(f) => Some(f),
        }
    }
}

/// Bit set describing which codec branches a datagram exercised (for the
/// distinctness measure): nibble classes seen for delta and length.
#[derive(Default, Clone, Copy)]
pub struct Shape {
    pub delta_classes: u8,
    pub len_classes: u8,
    pub nopts: u8,
}

pub fn parse(buf: &[u8]) -> (Verdict, Shape) {
    let mut shape = Shape::default();
    if buf.len() < 4 {
        return (Verdict::MustReject("short-header"), shape);
    }
    let b0 = buf[0];
    let version = b0 >> 6;
    let tkl = (b0 & 0x0F) as usize;
    let code = buf[1];
    let mid = ((buf[2] as u16) << 8) | buf[3] as u16;
    if tkl > 8 {
        return (Verdict::MustReject("tkl-9-15"), shape);
    }
    if 4 + tkl > buf.len() {
        return (Verdict::MustReject("truncated-token"), shape);
    }
    let token = buf[4..4 + tkl].to_vec();
    let mut idx = 4 + tkl;
    let mut number: u32 = 0;
    let mut opts = Vec::new();
    let mut marker_pos = None;
    let mut payload = Vec::new();
    while idx < buf.len() {
        let byte = buf[idx];
        if byte == 0xFF {
            marker_pos = Some(idx);
            payload = buf[idx + 1..].to_vec();
            break;
        }
        let dn = (byte >> 4) as u32;
        let ln = (byte & 0x0F) as usize;
        idx += 1;
        shape.delta_classes |= match dn {
            0..=12 => 1,
            13 => 2,
            14 => 4,
            _ => 8,
        };
        shape.len_classes |= match ln {
            0..=12 => 1,
            13 => 2,
            14 => 4,
            _ => 8,
        };
        if dn == 15 {
            return (Verdict::MustReject("delta-nibble-15"), shape);
        }
        if ln == 15 {
            return (Verdict::MustReject("length-nibble-15"), shape);
        }
        let delta = match dn {
            13 => {
                if idx >= buf.len() {
                    return (Verdict::MustReject("truncated-ext-delta"), shape);
                }
                let d = buf[idx] as u32 + 13;
                idx += 1;
                d
            }
            14 => {
                if idx + 2 > buf.len() {
                    return (Verdict::MustReject("truncated-ext-delta"), shape);
                }
                let d = (((buf[idx] as u32) << 8) | buf[idx + 1] as u32) + 269;
                idx += 2;
                d
            }
            d => d,
        };
        let length = match ln {
            13 => {
                if idx >= buf.len() {
                    return (Verdict::MustReject("truncated-ext-length"), shape);
                }
                let l = buf[idx] as usize + 13;
                idx += 1;
                l
            }
            14 => {
                if idx + 2 > buf.len() {
                    return (Verdict::MustReject("truncated-ext-length"), shape);
                }
                let l = (((buf[idx] as usize) << 8) | buf[idx + 1] as usize) + 269;
                idx += 2;
                l
            }
            l => l,
        };
        number += delta;
        if number > 65535 {
            return (Verdict::MustReject("option-number-overflow"), shape);
        }
        if idx + length > buf.len() {
            return (Verdict::MustReject("truncated-value"), shape);
        }
        opts.push((number, buf[idx..idx + length].to_vec()));
        shape.nopts = shape.nopts.saturating_add(1);
        idx += length;
    }
    let f = Fields { b0, code, mid, token, opts, payload, marker_pos };
    if version != 1 {
        return (Verdict::Either("version-not-1", f), shape);
    }
    if f.marker_pos.is_some() && f.payload.is_empty() {
        return (Verdict::Either("marker-then-nothing", f), shape);
    }
    if code == 0 && buf.len() > 4 {
        return (Verdict::Either("content-in-empty-message", f), shape);
    }
    (Verdict::MustAccept(f), shape)
}

/// What re-serialising an accepted datagram must produce: the input with only
/// the two permitted differences removed.
pub fn expected_reencode(input: &[u8], f: &Fields) -> Vec<u8> {
    match f.marker_pos {
        Some(p) if f.payload.is_empty() || f.code == 0 => input[..p].to_vec(),
        _ => input.to_vec(),
    }
}

// ---------------------------------------------------------------------------
// Independent encoder / accessors, so that client stubs and oracles do not
// depend on the codec of the crate under test.

impl Fields {
    pub fn version(&self) -> u8 {
        self.b0 >> 6
    }
    /// 0 CON, 1 NON, 2 ACK, 3 RST
    pub fn mtype(&self) -> u8 {
        (self.b0 >> 4) & 3
    }
    pub fn first_opt(&self, num: u32) -> Option<&Vec<u8>> {
        self.opts.iter().find(|(n, _)| *n == num).map(|(_, v)| v)
    }
    pub fn opt_values(&self, num: u32) -> Vec<Vec<u8>> {
        self.opts.iter().filter(|(n, _)| *n == num).map(|(_, v)| v.clone()).collect()
    }
    /// Block1 (27) / Block2 (23) value as (num, more, szx)
    pub fn block(&self, num: u32) -> Option<(u32, bool, u8)> {
        self.first_opt(num).and_then(|v| block_decode(v))
    }
}

/// RFC 7959 2.2: 0-3 byte uint, NUM << 4 | M << 3 | SZX.
pub fn block_decode(v: &[u8]) -> Option<(u32, bool, u8)> {
    if v.len() > 3 {
        return None;
    }
    let x = v.iter().fold(0u32, |a, b| (a << 8) | *b as u32);
    Some((x >> 4, x & 8 != 0, (x & 7) as u8))
}

pub fn uint_bytes(x: u64) -> Vec<u8> {
    let b = x.to_be_bytes();
    let skip = b.iter().take_while(|z| **z == 0).count();
    b[skip..].to_vec()
}

pub fn block_encode(num: u32, more: bool, szx: u8) -> Vec<u8> {
    uint_bytes(((num as u64) << 4) | ((more as u64) << 3) | (szx as u64 & 7))
}

/// RFC 7252 section 3 serialisation.  `opts` in any order; options with equal
/// numbers keep their relative order.
pub fn encode(version: u8, mtype: u8, code: u8, mid: u16, token: &[u8], opts: &[(u32, Vec<u8>)], payload: &[u8]) -> Vec<u8> {
    let mut out = Vec::with_capacity(4 + token.len() + payload.len() + 16);
    out.push((version << 6) | ((mtype & 3) << 4) | (token.len() as u8 & 0x0F));
    out.push(code);
    out.push((mid >> 8) as u8);
    out.push(mid as u8);
    out.extend_from_slice(token);
    let mut sorted: Vec<&(u32, Vec<u8>)> = opts.iter().collect();
    sorted.sort_by_key(|(n, _)| *n);
    let mut last = 0u32;
    for (n, v) in sorted {
        let delta = n - last;
        last = *n;
        let nib = |x: u32| -> (u8, Vec<u8>) {
            if x <= 12 {
                (x as u8, vec![])
            } else if x < 269 {
                (13, vec![(x - 13) as u8])
            } else {
                let e = x - 269;
                (14, vec![(e >> 8) as u8, e as u8])
            }
        };
        let (dn, de) = nib(delta);
        let (ln, le) = nib(v.len() as u32);
        out.push((dn << 4) | ln);
        out.extend_from_slice(&de);
        out.extend_from_slice(&le);
        out.extend_from_slice(v);
    }
    if !payload.is_empty() {
        out.push(0xFF);
        out.extend_from_slice(payload);
    }
    out
}

/// Fields of a datagram the grammar does not forbid (None for must-reject).
pub fn accept(buf: &[u8]) -> Option<Fields> {
    match parse(buf).0 {
        Verdict::MustReject(_) => None,
        Verdict::Either(_, f) | Verdict::MustAccept(f) => Some(f),
    }
}
