//! Minimal JSON value with writer and parser (evidence and replay files).
//! Hand-written so the simulator has no dependency beyond the crate under
//! test and its cache.
use std::collections::BTreeMap;
use std::fmt::Write;

#[derive(Clone, Debug, PartialEq)]
pub enum J {
    Null,
    Bool(bool),
    Int(i128),
    Num(f64),
    Str(String),
    Arr(Vec<J>),
    Obj(Vec<(String, J)>),
}

impl J {
    pub fn obj() -> J {
        J::Obj(Vec::new())
    }
    pub fn set(mut self, k: &str, v: J) -> J {
        if let J::Obj(ref mut o) = self {
            if let Some(e) = o.iter_mut().find(|(kk, _)| kk == k) {
                e.1 = v;
            } else {
                o.push((k.to_string(), v));
            }
        }
        self
    }
    pub fn put(&mut self, k: &str, v: J) {
        if let J::Obj(ref mut o) = self {
            if let Some(e) = o.iter_mut().find(|(kk, _)| kk == k) {
                e.1 = v;
            } else {
                o.push((k.to_string(), v));
            }
        }
    }
    pub fn get(&self, k: &str) -> Option<&J> {
        match self {
            J::Obj(o) => o.iter().find(|(kk, _)| kk == k).map(|(_, v)| v),
            _ => None,
        }
    }
    pub fn as_str(&self) -> Option<&str> {
        match self {
            J::Str(s) => Some(s),
            _ => None,
        }
    }
    pub fn as_u64(&self) -> Option<u64> {
        match self {
            J::Int(i) if *i >= 0 => Some(*i as u64),
            _ => None,
        }
    }
    pub fn as_arr(&self) -> Option<&Vec<J>> {
        match self {
            J::Arr(a) => Some(a),
            _ => None,
        }
    }
    pub fn s(x: impl Into<String>) -> J {
        J::Str(x.into())
    }
    pub fn u(x: u64) -> J {
        J::Int(x as i128)
    }
    pub fn map_u64(m: &BTreeMap<String, u64>) -> J {
        J::Obj(m.iter().map(|(k, v)| (k.clone(), J::u(*v))).collect())
    }

    pub fn write(&self, out: &mut String, indent: usize, level: usize) {
        match self {
            J::Null => out.push_str("null"),
            J::Bool(b) => out.push_str(if *b { "true" } else { "false" }),
            J::Int(i) => {
                let _ = write!(out, "{}", i);
            }
            J::Num(f) => {
                if f.is_finite() {
                    let _ = write!(out, "{:.3}", f);
                } else {
                    out.push_str("null");
                }
            }
            J::Str(s) => write_str(out, s),
            J::Arr(a) => {
                if a.is_empty() {
                    out.push_str("[]");
                    return;
                }
                let scalar = a.iter().all(|x| matches!(x, J::Int(_) | J::Num(_) | J::Bool(_) | J::Null));
                out.push('[');
                for (i, x) in a.iter().enumerate() {
                    if i > 0 {
                        out.push(',');
                    }
                    if !scalar {
                        nl(out, indent, level + 1);
                    }
                    x.write(out, indent, level + 1);
                }
                if !scalar {
                    nl(out, indent, level);
                }
                out.push(']');
            }
            J::Obj(o) => {
                if o.is_empty() {
                    out.push_str("{}");
                    return;
                }
                out.push('{');
                for (i, (k, v)) in o.iter().enumerate() {
                    if i > 0 {
                        out.push(',');
                    }
                    nl(out, indent, level + 1);
                    write_str(out, k);
                    out.push_str(": ");
                    v.write(out, indent, level + 1);
                }
                nl(out, indent, level);
                out.push('}');
            }
        }
    }
    pub fn to_string_pretty(&self) -> String {
        let mut s = String::new();
        self.write(&mut s, 1, 0);
        s.push('\n');
        s
    }
}

fn nl(out: &mut String, indent: usize, level: usize) {
    if indent > 0 {
        out.push('\n');
        for _ in 0..indent * level {
            out.push(' ');
        }
    }
}

fn write_str(out: &mut String, s: &str) {
    out.push('"');
    for c in s.chars() {
        match c {
            '"' => out.push_str("\\\""),
            '\\' => out.push_str("\\\\"),
            '\n' => out.push_str("\\n"),
            '\r' => out.push_str("\\r"),
            '\t' => out.push_str("\\t"),
            c if (c as u32) < 0x20 => {
                let _ = write!(out, "\\u{:04x}", c as u32);
            }
            c => out.push(c),
        }
    }
    out.push('"');
}

pub fn parse(s: &str) -> Result<J, String> {
    let b = s.as_bytes();
    let mut p = 0usize;
    let v = parse_val(b, &mut p)?;
    skip_ws(b, &mut p);
    if p != b.len() {
        return Err(format!("trailing data at {}", p));
    }
    Ok(v)
}

fn skip_ws(b: &[u8], p: &mut usize) {
    while *p < b.len() && matches!(b[*p], b' ' | b'\n' | b'\r' | b'\t') {
        *p += 1;
    }
}

fn parse_val(b: &[u8], p: &mut usize) -> Result<J, String> {
    skip_ws(b, p);
    if *p >= b.len() {
        return Err("eof".into());
    }
    match b[*p] {
        b'{' => {
            *p += 1;
            let mut o = Vec::new();
            skip_ws(b, p);
            if *p < b.len() && b[*p] == b'}' {
                *p += 1;
                return Ok(J::Obj(o));
            }
            loop {
                skip_ws(b, p);
                let k = match parse_val(b, p)? {
                    J::Str(s) => s,
                    _ => return Err("key".into()),
                };
                skip_ws(b, p);
                if *p >= b.len() || b[*p] != b':' {
                    return Err("colon".into());
                }
                *p += 1;
                let v = parse_val(b, p)?;
                o.push((k, v));
                skip_ws(b, p);
                if *p < b.len() && b[*p] == b',' {
                    *p += 1;
                    continue;
                }
                if *p < b.len() && b[*p] == b'}' {
                    *p += 1;
                    return Ok(J::Obj(o));
                }
                return Err(format!("obj at {}", p));
            }
        }
        b'[' => {
            *p += 1;
            let mut a = Vec::new();
            skip_ws(b, p);
            if *p < b.len() && b[*p] == b']' {
                *p += 1;
                return Ok(J::Arr(a));
            }
            loop {
                a.push(parse_val(b, p)?);
                skip_ws(b, p);
                if *p < b.len() && b[*p] == b',' {
                    *p += 1;
                    continue;
                }
                if *p < b.len() && b[*p] == b']' {
                    *p += 1;
                    return Ok(J::Arr(a));
                }
                return Err(format!("arr at {}", p));
            }
        }
        b'"' => {
            *p += 1;
            let mut s = String::new();
            loop {
                if *p >= b.len() {
                    return Err("str eof".into());
                }
                match b[*p] {
                    b'"' => {
                        *p += 1;
                        return Ok(J::Str(s));
                    }
                    b'\\' => {
                        *p += 1;
                        if *p >= b.len() {
                            return Err("esc eof".into());
                        }
                        match b[*p] {
                            b'n' => s.push('\n'),
                            b'r' => s.push('\r'),
                            b't' => s.push('\t'),
                            b'b' => s.push('\u{8}'),
                            b'f' => s.push('\u{c}'),
                            b'u' => {
                                if *p + 4 >= b.len() {
                                    return Err("u eof".into());
                                }
                                let h = std::str::from_utf8(&b[*p + 1..*p + 5]).map_err(|e| e.to_string())?;
                                let cp = u32::from_str_radix(h, 16).map_err(|e| e.to_string())?;
                                s.push(char::from_u32(cp).unwrap_or('?'));
                                *p += 4;
                            }
                            c => s.push(c as char),
                        }
                        *p += 1;
                    }
                    _ => {
                        // copy one UTF-8 scalar
                        let start = *p;
                        *p += 1;
                        while *p < b.len() && (b[*p] & 0xC0) == 0x80 {
                            *p += 1;
                        }
                        s.push_str(std::str::from_utf8(&b[start..*p]).map_err(|e| e.to_string())?);
                    }
                }
            }
        }
        b't' if b[*p..].starts_with(b"true") => {
            *p += 4;
            Ok(J::Bool(true))
        }
        b'f' if b[*p..].starts_with(b"false") => {
            *p += 5;
            Ok(J::Bool(false))
        }
        b'n' if b[*p..].starts_with(b"null") => {
            *p += 4;
            Ok(J::Null)
        }
        _ => {
            let start = *p;
            while *p < b.len() && matches!(b[*p], b'-' | b'+' | b'.' | b'e' | b'E' | b'0'..=b'9') {
                *p += 1;
            }
            let t = std::str::from_utf8(&b[start..*p]).map_err(|e| e.to_string())?;
            if let Ok(i) = t.parse::<i128>() {
                Ok(J::Int(i))
            } else {
                t.parse::<f64>().map(J::Num).map_err(|e| format!("num {:?}: {}", t, e))
            }
        }
    }
}

pub fn hex(b: &[u8]) -> String {
    let mut s = String::with_capacity(b.len() * 2);
    for x in b {
        let _ = write!(s, "{:02x}", x);
    }
    s
}
