//! Family `directed`: the small, boundary-dense corner of the block-wise
//! space — one client on a fault-free link, block sizes 16/32/64, every body
//! length 0..3*size+1, budgets in the dense band right above the smallest
//! admissible one and around "exactly admits the block size", every client
//! preference, duplicate patterns and abandoned prefixes for uploads.  Runs
//! are tiny, so a batch covers this corner far more densely than the general
//! `blockwise` family does.  Same oracles (C08 C09 C10 and the monitors).
use crate::choices::Ch;
use crate::common::*;
use crate::des::*;
use crate::fam_block;
use crate::gen::*;
use crate::server::*;
use crate::world::*;
use std::collections::BTreeMap;

pub fn gen_spec(ch: &mut Ch) -> WorldSpec {
    let upload = ch.below(2, "d.upload") == 1;
    let szx = ch.below(3, "d.szx") as u8;
    let size = 16usize << szx;
    // every length 0..3*size+1; now and then the block-number boundaries
    // 15/16/17 and 255/256/257 (one- vs two-byte block option values, u8 wrap)
    let len = match ch.weighted(&[80, 10, 10], "d.len.mode") {
        0 => ch.below(3 * size as u64 + 2, "d.len") as usize,
        1 => 15 * size + ch.below(2 * size as u64 + 2, "d.len.16") as usize,
        _ => (255 * size + ch.below(2 * size as u64 + 2, "d.len.256") as usize).min(if upload { 5000 } else { 20_000 }),
    };
    let path = vec![seg("d")];
    let opts = if ch.below(3, "d.opts") == 0 { vec![(4u16, vec![vec![0xE7, 0x01]]), (12, vec![vec![42]])] } else { vec![] };
    let token_len = *ch.pick(&[0usize, 4, 8, 1], "d.toklen");
    let mut resources = BTreeMap::new();
    let up_reply = if upload && ch.chance(1, 4, "d.up-reply") { ch.below(3 * size as u64 + 2, "d.up-reply.len") as usize } else { 0 };
    resources.insert(path.clone(), ResSpec { lens: vec![len, (len + size) % (3 * size + 2)], opts: opts.clone(), up_reply_lens: vec![up_reply], own_block2: None, code: None });
    let mut transfers = Vec::new();
    let mut t = default_transfer(if upload { 3 } else { 1 }, path.clone(), TKind::Plain { body_id: 0, payload_len: 0 });
    t.token_len = token_len;
    t.con = ch.below(8, "d.non") != 7 || token_len < 2;
    let budget;
    if upload {
        let nblocks = (len.max(1) + size - 1) / size;
        let mut dups = vec![0u8; nblocks];
        for d in dups.iter_mut() {
            *d = ch.weighted(&[70, 20, 10], "d.dup") as u8;
        }
        // an earlier upload to the same resource, abandoned midway
        let ab = ch.weighted(&[50, 10, 10, 10, 5, 5, 5, 5], "d.abandoned") as u32;
        if ab > 0 {
            let pszx = if ch.chance(1, 4, "d.ab.otherszx") { ch.below(3, "d.ab.szx") as u8 } else { szx };
            let mut a = t.clone();
            a.kind = TKind::Upload { body_id: 9_000 + ch.below(1000, "d.ab.body"), len: (ab as usize + 1) * (16usize << pszx), szx: pszx, dups: vec![], abandon_after: Some(ab), adapt: false };
            transfers.push(a);
        }
        t.kind = TKind::Upload { body_id: ch.below(1 << 32, "d.body") | if ch.chance(1, 2, "d.patterned") { BODY_PATTERNED } else { 0 }, len, szx, dups, abandon_after: None, adapt: false };
        let ro = request_overhead(&t, Some((200, true, szx)), None);
        // budgets that admit the client's block size: exactly, +1 .. +40
        budget = ro + 12 + size + ch.weighted(&[20, 10, 5, 5, 60], "d.budget.up").min(3) + if ch.below(2, "d.budget.up.more") == 1 { ch.below(38, "d.budget.up.d") as usize } else { 0 };
    } else {
        let early = match ch.weighted(&[40, 60], "d.early") {
            0 => None,
            _ => Some(ch.below(8, "d.early.szx") as u8),
        };
        let reduce = if ch.chance(1, 3, "d.reduce") && szx > 0 { Some((1 + ch.below(2, "d.reduce.after") as u32, ch.below(szx as u64, "d.reduce.szx") as u8)) } else { None };
        t.kind = TKind::Download { early, reduce };
        t.b2_more = ch.chance(1, 8, "d.b2more");
        t.probe = match ch.below(3, "d.probe") {
            0 => Probe::None,
            1 => Probe::NoBlock2,
            _ => Probe::Block2Zero(ch.below(8, "d.probe.szx") as u8),
        };
        let ov = request_overhead(&t, None, Some((15, false, 6))).max(response_overhead(token_len, &opts, false));
        // the smallest admissible budgets, and the ones around "room for
        // exactly this block size"
        budget = match ch.below(3, "d.budget.mode") {
            0 => ov + 28 + ch.below(41, "d.budget.dense") as usize,
            1 => ov + 12 + size + ch.below(16, "d.budget.around") as usize,
            _ => ov + 12 + 2 * size - 8 + ch.below(16, "d.budget.around2") as usize,
        };
    }
    transfers.push(t.clone());
    // more transfers on the same key right after (state left behind? leaking
    // from one finished transfer into the N-th one?)
    if ch.chance(1, 3, "d.again") {
        let n = 1 + ch.weighted(&[70, 15, 10, 5], "d.again.n") * 5 + ch.below(3, "d.again.n2") as usize;
        let n = if len > 3 * size + 1 { 1 } else { n };
        for i in 0..n {
            let mut t2 = t.clone();
            t2.probe = Probe::None;
            if let TKind::Upload { body_id, dups, .. } = &mut t2.kind {
                *body_id += 1 + i as u64;
                for d in dups.iter_mut() {
                    *d = 0;
                }
            }
            transfers.push(t2);
        }
    }
    WorldSpec {
        server: ServerCfg { budget, expiry_ns: 1_000_000 * SEC, check_wire: false, snapshots: false, feed_all_types: false, record_held: false, held_every: 1, held_always_from: 0 },
        resources,
        clients: vec![ClientSpec { ep: 100, lanes: vec![LaneSpec { transfers, timeout_ms: 2000 }], mid0: if ch.chance(1, 6, "d.mid0.wrap") { 65_520 + ch.below(16, "d.mid0") as u16 } else { ch.below(65536, "d.mid0") as u16 }, tok_seed: ch.below(1 << 32, "d.tok"), net: NetCfg::clean(1), via_proxy: false }],
        max_events: 5_000,
        slow_app_pm: 0,
    }
}

pub fn run(ch: &mut Ch, verbose: bool) -> Outcome {
    let spec = gen_spec(ch);
    let mut o = fam_block::run_spec(&spec, ch, verbose);
    o.stats.hit("directed.runs");
    o
}
