//! Family `sink`: the link-format writer over a text sink that fails.
//! Documents are sampled from the choice stream; for each document the fault
//! space (every write call k x {fail once, fail from k on, torn write}) is
//! swept completely.  Decides C18.
use crate::choices::{Ch, Fnv};
use crate::common::*;
use crate::json::J;
use coap_lite::link_format::LinkFormatWrite;
use std::fmt;

#[derive(Clone, Debug)]
enum Attr {
    Plain(String, String),
    Quoted(String, String),
    U32(String, u32),
    U16(String, u16),
}

#[derive(Clone, Debug)]
struct Doc {
    newlines: bool,
    links: Vec<(String, Vec<Attr>)>,
}

#[derive(Clone, Copy, Debug, PartialEq)]
enum Mode {
    None,
    Once(usize),
    From(usize),
    /// call k accepts `j` bytes (on a char boundary), then fails
    Torn(usize, usize),
}

struct Sink {
    /// number of write calls so far, readable while the writer borrows the sink
    ncalls: std::rc::Rc<std::cell::Cell<usize>>,
    mode: Mode,
    calls: Vec<String>,
    accepted: String,
    failed_calls: u32,
    calls_after_first_failure: u32,
}

impl fmt::Write for Sink {
    fn write_str(&mut self, s: &str) -> fmt::Result {
        let k = self.calls.len();
        self.calls.push(s.to_string());
        self.ncalls.set(k + 1);
        if self.failed_calls > 0 {
            self.calls_after_first_failure += 1;
        }
        let fail = match self.mode {
            Mode::None => false,
            Mode::Once(f) => k == f,
            Mode::From(f) => k >= f,
            Mode::Torn(f, j) => {
                if k == f {
                    let mut j = j.min(s.len());
                    while !s.is_char_boundary(j) {
                        j -= 1;
                    }
                    self.accepted.push_str(&s[..j]);
                    true
                } else {
                    false
                }
            }
        };
        if fail {
            self.failed_calls += 1;
            Err(fmt::Error)
        } else {
            self.accepted.push_str(s);
            Ok(())
        }
    }
}

const ALPHABET: [&str; 16] = ["a", "b", "\"", "\\", ",", ";", "<", ">", " ", "=", "é", "€", "𝄞", "Z", "0", "\n"];

fn gen_text(ch: &mut Ch, max: usize, structural: bool) -> String {
    let n = ch.below(max as u64 + 1, "sink.textlen") as usize;
    let mut s = String::new();
    for _ in 0..n {
        let i = if structural { ch.below(ALPHABET.len() as u64, "sink.char") as usize } else { *ch.pick(&[0usize, 1, 13, 14], "sink.char") };
        s.push_str(ALPHABET[i]);
    }
    s
}

fn gen_doc(ch: &mut Ch) -> Doc {
    let newlines = ch.below(2, "sink.newlines") == 1;
    // now and then a document with several hundred (mostly bare) links
    let crowd = ch.chance(1, 40, "sink.crowd");
    let nl = if crowd { 250 + ch.below(60, "sink.nlinks.crowd") as usize } else { ch.below(if thorough() { 7 } else { 5 }, "sink.nlinks") as usize };
    let mut links = Vec::new();
    for li in 0..nl {
        if crowd && !ch.chance(1, 50, "sink.crowd.rich") {
            links.push((format!("/{}", li), vec![]));
            continue;
        }
        // targets: any text without '>'
        // now and then the empty reference <>
        let target = if ch.chance(1, 10, "sink.empty-target") { String::new() } else { format!("/{}", gen_text(ch, 6, true).replace('>', "x")) };
        let na = ch.below(if thorough() { 7 } else { 5 }, "sink.nattrs") as usize;
        let mut attrs = Vec::new();
        for _ in 0..na {
            let key = *ch.pick(&["rt", "if", "sz", "title", "ct", "obs", "title*", "hreflang", "Title", "hrefLang", "x-y.z"], "sink.key");
            attrs.push(match ch.below(4, "sink.attrkind") {
                0 => {
                    let structural = ch.below(2, "sink.plain.structural") == 1;
                    Attr::Plain(key.into(), gen_text(ch, 5, structural))
                }
                1 => {
                    // now and then a long value (several buffers' worth)
                    let max = if ch.chance(1, 10, "sink.quoted.long") { 40 + ch.below(100, "sink.quoted.max") as usize } else { 6 };
                    Attr::Quoted(key.into(), gen_text(ch, max, true))
                }
                2 => Attr::U32(key.into(), *ch.pick(&[0u32, 7, 40, 65536, u32::MAX], "sink.u32")),
                _ => Attr::U16(key.into(), *ch.pick(&[0u16, 9, 50, u16::MAX], "sink.u16")),
            });
        }
        links.push((target, attrs));
    }
    Doc { newlines, links }
}

struct WriteResult {
    final_result: Result<(), fmt::Error>,
    /// result of LinkAttributeWrite::finish() per link
    link_results: Vec<Result<(), fmt::Error>>,
    /// number of sink calls made when each link finished
    calls_at_link_end: Vec<usize>,
    sink: Sink,
}

fn write_doc(doc: &Doc, mode: Mode) -> WriteResult {
    let ncalls = std::rc::Rc::new(std::cell::Cell::new(0usize));
    let mut sink = Sink { ncalls: ncalls.clone(), mode, calls: Vec::new(), accepted: String::new(), failed_calls: 0, calls_after_first_failure: 0 };
    let mut link_results = Vec::new();
    let mut calls_at_link_end = Vec::new();
    let final_result;
    {
        // the sink is observed between links through a raw pointer-free
        // trick: LinkFormatWrite borrows it mutably, so call counts are read
        // after the writer is gone; per-link counts are reconstructed from a
        // second, fault-free pass (see below)
        let mut w = LinkFormatWrite::new(&mut sink);
        w.set_add_newlines(doc.newlines);
        for (target, attrs) in &doc.links {
            let mut a = w.link(target);
            for at in attrs {
                a = match at {
                    Attr::Plain(k, v) => a.attr(k, v),
                    Attr::Quoted(k, v) => a.attr_quoted(k, v),
                    Attr::U32(k, v) => a.attr_u32(k, *v),
                    Attr::U16(k, v) => a.attr_u16(k, *v),
                };
            }
            link_results.push(a.finish());
            calls_at_link_end.push(ncalls.get());
        }
        final_result = w.finish();
    }
    WriteResult { final_result, link_results, calls_at_link_end, sink }
}

/// Number of sink calls the fault-free writer has made by the end of each

/// What the document says, link by link: (target, [(key, value)]).
fn doc_meaning(doc: &Doc) -> Vec<(String, Vec<(String, String)>)> {
    doc.links
        .iter()
        .map(|(t, attrs)| {
            (
                t.clone(),
                attrs
                    .iter()
                    .map(|a| match a {
                        Attr::Plain(k, v) | Attr::Quoted(k, v) => (k.clone(), v.clone()),
                        Attr::U32(k, v) => (k.clone(), v.to_string()),
                        Attr::U16(k, v) => (k.clone(), v.to_string()),
                    })
                    .collect(),
            )
        })
        .collect()
}

/// Reads link-format text back, independently of the crate and tolerant of
/// every choice RFC 6690 leaves to the writer (quoting a value or not where
/// both are valid, white space / line breaks after the link separator).
/// "The output is complete" means: it reads back as the whole document.
fn read_back(text: &str) -> Result<Vec<(String, Vec<(String, String)>)>, String> {
    let c: Vec<char> = text.chars().collect();
    let mut i = 0usize;
    let mut links = Vec::new();
    if c.is_empty() {
        return Ok(links);
    }
    loop {
        if c.get(i) != Some(&'<') {
            return Err(format!("expected '<' at char {}", i));
        }
        i += 1;
        let mut target = String::new();
        loop {
            match c.get(i) {
                None => return Err("unterminated target".into()),
                Some('>') => break,
                Some(ch) => target.push(*ch),
            }
            i += 1;
        }
        i += 1;
        let mut attrs = Vec::new();
        while c.get(i) == Some(&';') {
            i += 1;
            let mut key = String::new();
            while let Some(ch) = c.get(i) {
                if *ch == '=' || *ch == ';' || *ch == ',' {
                    break;
                }
                key.push(*ch);
                i += 1;
            }
            if c.get(i) != Some(&'=') {
                // the valueless form `;key` (RFC 6690 link-extension)
                attrs.push((key.trim_end().to_string(), String::new()));
                continue;
            }
            i += 1;
            let mut val = String::new();
            if c.get(i) == Some(&'"') {
                i += 1;
                loop {
                    match c.get(i) {
                        None => return Err("unterminated quoted value".into()),
                        Some('"') => break,
                        Some('\\') => {
                            i += 1;
                            match c.get(i) {
                                None => return Err("dangling escape".into()),
                                Some(ch) => val.push(*ch),
                            }
                        }
                        Some(ch) => val.push(*ch),
                    }
                    i += 1;
                }
                i += 1;
            } else {
                while let Some(ch) = c.get(i) {
                    if *ch == ';' || *ch == ',' {
                        break;
                    }
                    val.push(*ch);
                    i += 1;
                }
                // white space is never part of an unquoted value
                val = val.trim_end_matches(|ch| ch == ' ' || ch == '\n' || ch == '\r' || ch == '\t').to_string();
            }
            while matches!(c.get(i), Some(' ') | Some('\n') | Some('\r') | Some('\t')) {
                i += 1;
            }
            attrs.push((key, val));
        }
        links.push((target, attrs));
        while matches!(c.get(i), Some(' ') | Some('\n') | Some('\r') | Some('\t')) {
            i += 1;
        }
        match c.get(i) {
            None => return Ok(links),
            Some(',') => {
                i += 1;
                while matches!(c.get(i), Some(' ') | Some('\n') | Some('\r') | Some('\t')) {
                    i += 1;
                }
            }
            Some(ch) => return Err(format!("unexpected {:?} after a link at char {}", ch, i)),
        }
    }
}

fn call_kind(s: &str) -> &'static str {
    match s {
        "," => "link-separator",
        "\n\r" => "newline",
        "<" => "open",
        ">" => "close",
        ";" => "attr-separator",
        "=" => "equals",
        "\"" => "quote",
        "\\" => "escape",
        _ => "text",
    }
}

pub fn run(ch: &mut Ch, verbose: bool) -> Outcome {
    let doc = gen_doc(ch);
    let mut out = Outcome::new();
    out.faulty_cfg = true;
    let mut trace = Vec::new();
    let clean = match guard(|| write_doc(&doc, Mode::None)) {
        Ok(r) => r,
        Err(msg) => {
            out.violations.push(Violation::new("C18", "panic", format!("writer panicked on a fault-free sink: {}", msg)));
            return out;
        }
    };
    let n = clean.sink.calls.len();
    let full = clean.sink.accepted.clone();
    let mut doc_hash = Fnv::default();
    doc_hash.bytes(full.as_bytes());
    doc_hash.byte(doc.newlines as u8);
    out.stats.hit("sink.documents");
    out.stats.add("sink.fault-free-calls", n as u64);
    // C18/ok-complete
    if clean.final_result.is_err() || clean.link_results.iter().any(|r| r.is_err()) {
        out.violations.push(Violation::new("C18", "ok-complete", format!("writer reported an error although the sink never failed (document {:?})", full)));
    }
    if full != clean.sink.calls.concat() {
        out.violations.push(Violation::new("C18", "ok-complete", "sink content differs from the concatenation of its calls".into()));
    }
    // a writer may percent-encode characters of a target that a URI reference
    // cannot hold: the target then reads back after percent-decoding
    let pct = |t: &str| -> Vec<u8> {
        let b = t.as_bytes();
        let mut o = Vec::new();
        let mut i = 0;
        while i < b.len() {
            let hex = |x: u8| (x as char).to_digit(16);
            if b[i] == b'%' && i + 2 < b.len() + 0 && hex(b[i + 1]).is_some() && hex(b[i + 2]).is_some() {
                o.push((hex(b[i + 1]).unwrap() * 16 + hex(b[i + 2]).unwrap()) as u8);
                i += 3;
            } else {
                o.push(b[i]);
                i += 1;
            }
        }
        o
    };
    let same = |m: &Vec<(String, Vec<(String, String)>)>| -> bool {
        let d = doc_meaning(&doc);
        m.len() == d.len() && m.iter().zip(d.iter()).all(|(a, b)| (a.0 == b.0 || pct(&a.0) == b.0.as_bytes()) && a.1.len() == b.1.len() && a.1.iter().zip(b.1.iter()).all(|(x, y)| x.0.eq_ignore_ascii_case(&y.0) && x.1 == y.1))
    };
    match read_back(&full) {
        Ok(m) if same(&m) => {}
        other => {
            let why = match other {
                Ok(m) => format!("it reads back as {} links", m.len()),
                Err(e) => format!("it does not read back: {}", e),
            };
            out.violations.push(Violation::new("C18", "ok-complete", format!("fault-free output ({} bytes, {} links, newlines={}) is not the complete document: {}", full.len(), doc.links.len(), doc.newlines, why)).with_sig("incomplete"));
        }
    }
    // number of sink calls the fault-free writer has made when each link's
    // attribute writer is finished
    let per_link = clean.calls_at_link_end.clone();
    if verbose {
        trace.push(format!("document ({} links, newlines={}): {:?}", doc.links.len(), doc.newlines, full));
        trace.push(format!("fault-free write calls ({}): {:?}", n, clean.sink.calls));
    }
    let mut units = 1u64;
    for k in 0..n {
        let call = &clean.sink.calls[k];
        let torn_at = if call.len() > 1 { 1 + (k % (call.len() - 1)) } else { 0 };
        for mode in [Mode::Once(k), Mode::From(k), Mode::Torn(k, torn_at)] {
            units += 1;
            out.stats.hit(match mode {
                Mode::Once(_) => "fault.sink-fail-once",
                Mode::From(_) => "fault.sink-fail-from",
                _ => "fault.sink-torn",
            });
            let r = match guard(|| write_doc(&doc, mode)) {
                Ok(r) => r,
                Err(msg) => {
                    out.violations.push(Violation::new("C18", "panic", format!("writer panicked with {:?}: {}", mode, msg)));
                    continue;
                }
            };
            let kind = call_kind(call);
            let mut h2 = Fnv::default();
            h2.bytes(kind.as_bytes());
            h2.byte(doc.newlines as u8);
            h2.byte(match mode {
                Mode::Once(_) => 1,
                Mode::From(_) => 2,
                _ => 3,
            });
            h2.byte((per_link.iter().position(|&c| k < c).unwrap_or(0) > 0) as u8);
            out.distinct2.push(h2.0);
            if kind == "link-separator" && doc.newlines {
                out.stats.hit("probe.c18.fault-on-separator-with-newlines");
            }
            if kind == "escape" {
                out.stats.hit("probe.c18.fault-on-escape-write");
            }
            // expected sink content: calls 0..k, plus the torn prefix
            let mut expect: String = clean.sink.calls[..k].concat();
            if let Mode::Torn(_, j) = mode {
                let mut j = j.min(call.len());
                while !call.is_char_boundary(j) {
                    j -= 1;
                }
                expect.push_str(&call[..j]);
            }
            let ctx = || format!("document {:?}, newlines={}, fault {:?} on write call #{} {:?} ({})", full, doc.newlines, mode, k, call, kind);
            if r.final_result.is_ok() {
                out.violations.push(Violation::new("C18", "error-reported", format!("LinkFormatWrite::finish() returned Ok after a failed write: {}", ctx())).with_sig(&format!("finish-ok@{}", kind)));
            }
            // the attribute writer of the link in which the fault happened,
            // and every later one, report it too
            for (li, lr) in r.link_results.iter().enumerate() {
                if per_link[li] > k && lr.is_ok() {
                    out.violations.push(
                        Violation::new("C18", "error-reported", format!("LinkAttributeWrite::finish() of link {} returned Ok after a failed write: {}", li, ctx())).with_sig(&format!("link-finish-ok@{}", kind)),
                    );
                    break;
                }
            }
            if r.sink.accepted != expect {
                out.violations.push(
                    Violation::new(
                        "C18",
                        "nothing-after",
                        format!("sink holds {:?}, expected the prefix {:?} and not one byte more ({} write calls after the failure): {}", r.sink.accepted, expect, r.sink.calls_after_first_failure, ctx()),
                    )
                    .with_sig(&format!("written-after@{}", kind)),
                );
            }
            if !full.starts_with(&r.sink.accepted) {
                out.violations.push(Violation::new("C18", "nothing-after", format!("sink content is not a prefix of the fault-free output: {}", ctx())).with_sig(&format!("not-prefix@{}", kind)));
            }
            if verbose && trace.len() < 60 {
                trace.push(format!("fault {:?} on call #{} {:?}: finish={:?} sink={:?}", mode, k, call, r.final_result.is_ok(), r.sink.accepted));
            }
        }
    }
    // distinct (document, fault position, mode) triples: 3 per write call of
    // this document, counted once per distinct document
    out.weighted.push((doc_hash.0, 3 * n as u64));
    out.stats.add("sink.faulted-writes", units - 1);
    out.units = units;
    let mut h = Fnv::default();
    h.u64(doc_hash.0);
    h.u64(out.violations.len() as u64);
    out.hash = h.0;
    out.trace = trace;
    if verbose {
        out.sample = Some(J::obj().set("document", J::s(full.clone())).set("newlines", J::Bool(doc.newlines)).set("write_calls", J::u(n as u64)).set("faulted_writes_swept", J::u(units - 1)).set(
            "links",
            J::Arr(doc.links.iter().map(|(t, a)| J::s(format!("{:?} {:?}", t, a))).collect()),
        ));
    }
    out
}
