//! Types shared by all scenario families.
use crate::choices::Fnv;
use crate::des::Stats;
use crate::json::J;
use std::cell::RefCell;

pub type Ep = u32;

#[derive(Clone, Debug)]
pub struct Violation {
    pub prop: &'static str,
    pub clause: &'static str,
    /// stable signature used to match entries of known_findings.json
    pub sig: String,
    pub detail: String,
}

impl Violation {
    pub fn new(prop: &'static str, clause: &'static str, detail: String) -> Violation {
        Violation { prop, clause, sig: clause.to_string(), detail }
    }
    pub fn with_sig(mut self, sig: &str) -> Violation {
        self.sig = sig.to_string();
        self
    }
}

/// Event log of a run: always hashed (determinism self-check), kept as text
/// only when `verbose` (replay files, evidence samples).  Logging never draws
/// from the choice stream and never reads a clock.
pub struct Trace {
    pub h: Fnv,
    pub verbose: bool,
    pub lines: Vec<String>,
    pub max_lines: usize,
}

impl Trace {
    pub fn new(verbose: bool) -> Trace {
        Trace { h: Fnv::default(), verbose, lines: Vec::new(), max_lines: 4000 }
    }
    #[inline]
    pub fn ev(&mut self, kind: u8, a: u64, bytes: &[u8]) {
        self.h.byte(kind);
        self.h.u64(a);
        self.h.bytes(bytes);
    }
    #[inline]
    pub fn line<F: FnOnce() -> String>(&mut self, f: F) {
        if self.verbose && self.lines.len() < self.max_lines {
            self.lines.push(f());
        }
    }
}

pub struct Outcome {
    pub violations: Vec<Violation>,
    pub stats: Stats,
    pub hash: u64,
    pub sim_ns: u64,
    /// hashes of abstract histories that count as non-trivial for the
    /// property being checked (distinctness measure)
    pub nontrivial: Vec<u64>,
    /// secondary distinctness measure (family specific)
    pub distinct2: Vec<u64>,
    pub trace: Vec<String>,
    pub sample: Option<J>,
    pub faulty_cfg: bool,
    /// evaluation units in this run (1 unless a family evaluates many cases
    /// per run, e.g. one faulted write per unit)
    pub units: u64,
    /// the run could not be evaluated for a reason that is the harness's, not
    /// the code's (exit 2, never a violation)
    pub harness_error: Option<String>,
    /// (group label, item hash): distinct items are counted per group
    pub groups: Vec<(String, u64)>,
    /// (case-set hash, number of distinct non-trivial cases in it): for
    /// families that evaluate many cases per run, so that the distinct count
    /// does not need one set entry per case
    pub weighted: Vec<(u64, u64)>,
}

impl Outcome {
    pub fn new() -> Outcome {
        Outcome {
            violations: Vec::new(),
            stats: Stats::default(),
            hash: 0,
            sim_ns: 0,
            nontrivial: Vec::new(),
            distinct2: Vec::new(),
            trace: Vec::new(),
            sample: None,
            faulty_cfg: false,
            units: 1,
            harness_error: None,
            groups: Vec::new(),
            weighted: Vec::new(),
        }
    }
}

// ---- tier knob -------------------------------------------------------------

static THOROUGH: std::sync::atomic::AtomicBool = std::sync::atomic::AtomicBool::new(false);

/// The thorough tier widens the bounds of every family (more parties, longer
/// histories, larger bodies); recorded in replay files.
pub fn set_thorough(on: bool) {
    THOROUGH.store(on, std::sync::atomic::Ordering::Relaxed);
}
pub fn thorough() -> bool {
    THOROUGH.load(std::sync::atomic::Ordering::Relaxed)
}

// ---- panic capture -------------------------------------------------------

thread_local! {
    static LAST_PANIC: RefCell<Option<String>> = const { RefCell::new(None) };
}

/// Installs a silent panic hook that records message and location in a
/// thread-local instead of printing (a panic inside real code is an oracle
/// observation, not noise on stderr).
pub fn install_panic_hook() {
    std::panic::set_hook(Box::new(|info| {
        let msg = if let Some(s) = info.payload().downcast_ref::<&str>() {
            s.to_string()
        } else if let Some(s) = info.payload().downcast_ref::<String>() {
            s.clone()
        } else {
            "panic".to_string()
        };
        let loc = info.location().map(|l| format!("{}:{}", l.file(), l.line())).unwrap_or_default();
        LAST_PANIC.with(|p| *p.borrow_mut() = Some(format!("{} at {}", msg, loc)));
    }));
}

pub fn take_panic() -> String {
    LAST_PANIC.with(|p| p.borrow_mut().take()).unwrap_or_else(|| "panic".into())
}

/// Runs `f`, turning an unwind into Err(message).
pub fn guard<T, F: FnOnce() -> T>(f: F) -> Result<T, String> {
    match std::panic::catch_unwind(std::panic::AssertUnwindSafe(f)) {
        Ok(v) => Ok(v),
        Err(_) => Err(take_panic()),
    }
}

/// Location part of a captured panic message ("file:line"), with the /repo
/// prefix stripped, for signatures.
pub fn panic_site(msg: &str) -> String {
    match msg.rfind(" at ") {
        Some(i) => msg[i + 4..].replace("/repo/", ""),
        None => "unknown".into(),
    }
}

/// Deterministic body bytes: a function of (id, length) only.  Every byte
/// depends on the id, so bodies of different transfers / versions differ.
/// Bit of a body id that selects "patterned" content (may contain zero
/// bytes, runs, text, a trailing 0xFF).  Without it a body never contains
/// 0x00, so that zero-filled (fresh) buffers are distinguishable from data.
pub const BODY_PATTERNED: u64 = 1 << 62;

pub fn gen_body(id: u64, len: usize) -> Vec<u8> {
    let mut r = crate::choices::Xoshiro::new(id ^ 0xB0D1_B0D1_B0D1_B0D1);
    let mut out = Vec::with_capacity(len);
    let patterned = id & BODY_PATTERNED != 0;
    let kind = if patterned { r.next() % 6 } else { 99 };
    while out.len() < len {
        let mut v = r.next();
        for _ in 0..8 {
            if out.len() < len {
                let b = (v & 0xFF) as u8;
                out.push(match kind {
                    // plain random bytes, zeros included
                    0 => b,
                    // long runs of 0x00 and 0xFF
                    1 => {
                        if (out.len() / 24) % 2 == 0 {
                            0x00
                        } else {
                            0xFF
                        }
                    }
                    // ASCII text
                    2 => b"the quick brown fox; jumps, over <the> lazy \"dog\"\n"[out.len() % 50],
                    // all zero
                    3 => 0,
                    // mostly random, every 16th byte zero (block starts)
                    4 => {
                        if out.len() % 16 == 0 {
                            0
                        } else {
                            b
                        }
                    }
                    // random with 0xFF at block ends and at the very end
                    5 => {
                        if out.len() % 16 == 15 || out.len() + 1 == len {
                            0xFF
                        } else {
                            b
                        }
                    }
                    _ => {
                        if b == 0 {
                            0xA5
                        } else {
                            b
                        }
                    }
                });
                v >>= 8;
            }
        }
    }
    out
}

pub fn short(b: &[u8]) -> String {
    if b.len() <= 48 {
        crate::json::hex(b)
    } else {
        format!("{}..({} bytes)", crate::json::hex(&b[..40]), b.len())
    }
}
