//! Discrete-event core: a totally ordered event queue on simulated time, the
//! simulated clock the code under test reads, and the lossy network.
use crate::choices::Ch;
use sn_fake_clock::FakeClock;
use std::collections::BTreeMap;

pub const MS: u64 = 1_000_000;
pub const SEC: u64 = 1_000_000_000;

pub struct Queue<E> {
    now: u64,
    seq: u64,
    q: BTreeMap<(u64, u64), E>,
    pub popped: u64,
}

impl<E> Queue<E> {
    pub fn new() -> Self {
        FakeClock::reset();
        Queue { now: 0, seq: 0, q: BTreeMap::new(), popped: 0 }
    }
    pub fn now(&self) -> u64 {
        self.now
    }
    pub fn at(&mut self, t: u64, e: E) {
        let t = t.max(self.now);
        self.seq += 1;
        self.q.insert((t, self.seq), e);
    }
    pub fn after(&mut self, d: u64, e: E) {
        self.at(self.now.saturating_add(d), e);
    }
    /// Next event; jumps the simulated clock to its time.  This is the only
    /// place the clock the code under test reads is ever advanced.
    pub fn pop(&mut self) -> Option<(u64, E)> {
        let (&k, _) = self.q.iter().next()?;
        let e = self.q.remove(&k).unwrap();
        self.now = k.0;
        FakeClock::set_ns(self.now);
        self.popped += 1;
        Some((k.1, e))
    }
    pub fn len(&self) -> usize {
        self.q.len()
    }
}

/// Per-run network configuration, drawn swarm-style: many runs have only one
/// or two kinds on, some none.  Rates are per mille.
#[derive(Clone, Debug, Default)]
pub struct NetCfg {
    pub base_ms: u64,
    pub jitter: bool,
    pub drop_pm: u64,
    pub dup_pm: u64,
    pub delay_pm: u64,
    pub corrupt_pm: u64,
    /// which corruption kinds are enabled (bit per kind, see CORRUPT_KINDS)
    pub corrupt_kinds: u32,
}

pub const CORRUPT_KINDS: [&str; 6] = ["trunc", "bitflip", "byte-set", "byte-ins", "byte-del", "tail-garbage"];

impl NetCfg {
    pub fn clean(base_ms: u64) -> NetCfg {
        NetCfg { base_ms, ..Default::default() }
    }
    pub fn faulty(&self) -> bool {
        self.drop_pm + self.dup_pm + self.delay_pm + self.corrupt_pm > 0
    }
}

#[derive(Default, Clone, Debug)]
pub struct Stats {
    pub m: BTreeMap<&'static str, u64>,
}
impl Stats {
    #[inline]
    pub fn hit(&mut self, k: &'static str) {
        *self.m.entry(k).or_insert(0) += 1;
    }
    pub fn add(&mut self, k: &'static str, n: u64) {
        *self.m.entry(k).or_insert(0) += n;
    }
    pub fn merge(&mut self, o: &Stats) {
        for (k, v) in &o.m {
            *self.m.entry(k).or_insert(0) += v;
        }
    }
    pub fn get(&self, k: &str) -> u64 {
        self.m.get(k).copied().unwrap_or(0)
    }
}

/// One copy of a datagram the network decided to deliver.
pub struct Delivery {
    pub delay: u64,
    pub bytes: Vec<u8>,
    pub corrupted: bool,
    pub duplicate: bool,
}

const INTERESTING: [u8; 24] = [
    0xFF, 0xD0, 0xD1, 0xDD, 0xDE, 0xE0, 0xE1, 0xEE, 0xED, 0x0D, 0x0E, 0x0F, 0xF0, 0xF1, 0xF5, 0xFE, 0x1D, 0x1E, 0xD7, 0xDB, 0xB1,
    0x00, 0x40, 0x48,
];

pub fn corrupt(bytes: &[u8], kinds: u32, ch: &mut Ch, stats: &mut Stats) -> Vec<u8> {
    let mut b = bytes.to_vec();
    let enabled: Vec<usize> = (0..CORRUPT_KINDS.len()).filter(|i| kinds & (1 << i) != 0).collect();
    if enabled.is_empty() {
        return b;
    }
    let steps = 1 + ch.below(2, "corrupt.steps");
    for _ in 0..steps {
        let k = enabled[ch.below(enabled.len() as u64, "corrupt.kind") as usize];
        stats.hit(match k {
            0 => "fault.trunc",
            1 => "fault.bitflip",
            2 => "fault.byte-set",
            3 => "fault.byte-ins",
            4 => "fault.byte-del",
            _ => "fault.tail-garbage",
        });
        // positions are biased towards the header/option area
        let pos = |ch: &mut Ch, len: usize| -> usize {
            if len == 0 {
                0
            } else if ch.below(3, "corrupt.posmode") == 0 {
                ch.below(len as u64, "corrupt.pos") as usize
            } else {
                ch.below(len.min(24) as u64, "corrupt.pos") as usize
            }
        };
        match k {
            0 => {
                let p = pos(ch, b.len() + 1);
                b.truncate(p);
            }
            1 => {
                if !b.is_empty() {
                    let p = pos(ch, b.len());
                    b[p] ^= 1 << ch.below(8, "corrupt.bit");
                }
            }
            2 => {
                if !b.is_empty() {
                    let p = pos(ch, b.len());
                    b[p] = if ch.below(4, "corrupt.rnd") == 0 {
                        ch.below(256, "corrupt.val") as u8
                    } else {
                        INTERESTING[ch.below(INTERESTING.len() as u64, "corrupt.val") as usize]
                    };
                }
            }
            3 => {
                let p = pos(ch, b.len() + 1);
                let v = if ch.below(2, "corrupt.rnd") == 0 {
                    ch.below(256, "corrupt.val") as u8
                } else {
                    INTERESTING[ch.below(INTERESTING.len() as u64, "corrupt.val") as usize]
                };
                b.insert(p.min(b.len()), v);
            }
            4 => {
                if !b.is_empty() {
                    let p = pos(ch, b.len());
                    b.remove(p);
                }
            }
            _ => {
                let n = 1 + ch.below(6, "corrupt.taillen") as usize;
                for _ in 0..n {
                    let v = if ch.below(2, "corrupt.rnd") == 0 {
                        ch.below(256, "corrupt.val") as u8
                    } else {
                        INTERESTING[ch.below(INTERESTING.len() as u64, "corrupt.val") as usize]
                    };
                    b.push(v);
                }
            }
        }
    }
    b
}

/// The only transport the system sees.  Decides loss, duplication, delay
/// (hence reordering) and corruption of one datagram from the choice stream.
pub fn net_send(cfg: &NetCfg, bytes: &[u8], ch: &mut Ch, stats: &mut Stats) -> Vec<Delivery> {
    let mut out = Vec::with_capacity(1);
    stats.hit("net.sent");
    if cfg.drop_pm > 0 && ch.chance(cfg.drop_pm, 1000, "net.drop") {
        stats.hit("fault.drop");
        return out;
    }
    let copies = if cfg.dup_pm > 0 && ch.chance(cfg.dup_pm, 1000, "net.dup") {
        stats.hit("fault.dup");
        2
    } else {
        1
    };
    for c in 0..copies {
        let mut delay = cfg.base_ms * MS;
        if cfg.jitter {
            delay += ch.below(cfg.base_ms * MS / 4 + 1, "net.jitter");
        }
        if cfg.delay_pm > 0 && ch.chance(cfg.delay_pm, 1000, "net.delay") {
            stats.hit("fault.delay");
            // 100 ms .. 8 s: enough to overtake later messages and to outlive
            // a retransmission timeout
            delay += (100 + ch.below(7900, "net.delay.ms")) * MS;
        }
        if c == 1 {
            // a duplicate is either immediate or late
            if ch.below(2, "net.dup.late") == 1 {
                delay += (50 + ch.below(5000, "net.dup.ms")) * MS;
            }
        }
        let mut corrupted = false;
        let mut b = bytes.to_vec();
        if cfg.corrupt_pm > 0 && ch.chance(cfg.corrupt_pm, 1000, "net.corrupt") {
            b = corrupt(bytes, cfg.corrupt_kinds, ch, stats);
            corrupted = b != bytes;
        }
        out.push(Delivery { delay, bytes: b, corrupted, duplicate: c == 1 });
    }
    out
}
