//! Family `isolation`: 2-3 scripted block-wise transfers whose cache keys
//! pairwise differ in exactly one of endpoint / method / path run interleaved
//! under a seeded scheduler (uniform or PCT-style priorities, optionally
//! split-phase with a slow application), and each of them also runs solo
//! against a fresh handler.  There are no timers and no latencies here: lost
//! replies and duplicates are explicit steps of each client's materialised
//! script, so that a client's behaviour is a function of its script and of
//! the replies it receives and of nothing else.  Decides C12.
use crate::choices::{Ch, Fnv};
use crate::common::*;
use crate::des::*;
use crate::gen::*;
use crate::json::J;
use crate::server::*;
use crate::world::*;
use sn_fake_clock::FakeClock;
use std::collections::{BTreeMap, VecDeque};

#[derive(Clone, Debug)]
struct IsoSpec {
    server: ServerCfg,
    resources: BTreeMap<Vec<Vec<u8>>, ResSpec>,
    clients: Vec<ClientSpec>,
    pct: bool,
    slow_app: bool,
    /// simulated time jumps between server steps (fractions of the expiry);
    /// solo runs replay the times of the interleaved run
    timed: bool,
}

/// Pairs (and triples) of keys that differ in exactly one component.
/// Methods 1 (GET) and 5 (FETCH) are downloads, 2 (POST), 3 (PUT) and 6
/// (PATCH) uploads, so keys that differ in the method may mix both kinds.
fn key_variants(ch: &mut Ch, n: usize) -> Vec<(Ep, u8, Vec<Vec<u8>>)> {
    let methods = [1u8, 3, 5, 2, 6, 7, 4];
    let m1 = methods[ch.below(methods.len() as u64, "iso.method") as usize];
    let base_path = vec![seg("a"), seg("b")];
    let path_alts: Vec<Vec<Vec<u8>>> = vec![
        vec![seg("a/b")],
        vec![seg("a")],
        vec![seg("a"), seg("b"), seg("c")],
        vec![seg("a"), seg("B")],
        vec![seg("a"), seg("")],
        vec![seg("a"), seg("b"), seg("")],
        vec![seg(""), seg("a"), seg("b")],
        vec![seg("a"), seg(""), seg("b")],
    ];
    let mut v = vec![(100 as Ep, m1, base_path.clone())];
    let dim = ch.below(4, "iso.dim");
    match dim {
        0 => {
            // differ in endpoint
            v.push((101, m1, base_path.clone()));
            if n > 2 {
                v.push((102, m1, base_path.clone()));
            }
        }
        1 => {
            // differ in method (possibly mixing uploads and downloads)
            let others: Vec<u8> = methods.iter().copied().filter(|m| *m != m1).collect();
            let i = ch.below(others.len() as u64, "iso.method2") as usize;
            v.push((100, others[i], base_path.clone()));
            if n > 2 {
                let j = (i + 1 + ch.below(others.len() as u64 - 1, "iso.method3") as usize) % others.len();
                v.push((100, others[j], base_path.clone()));
            }
        }
        2 => {
            // differ in path: segmentation, prefix, extension, case
            let i = ch.below(path_alts.len() as u64, "iso.path.alt") as usize;
            v.push((100, m1, path_alts[i].clone()));
            if n > 2 {
                let j = (i + 1 + ch.below(path_alts.len() as u64 - 1, "iso.path.alt2") as usize) % path_alts.len();
                v.push((100, m1, path_alts[j].clone()));
            }
        }
        _ => {
            // empty path vs a single empty segment
            v[0].2 = vec![];
            v.push((100, m1, vec![seg("")]));
        }
    }
    v
}

fn gen_spec(ch: &mut Ch) -> IsoSpec {
    let n = 2 + ch.weighted(&[70, 30], "iso.n");
    let extra_blocks = if thorough() { 3 } else { 0 };
    let keys = key_variants(ch, n);
    // now and then: large representations (tens of KiB, 1024-byte blocks) of
    // which every client fetches / sends only the first few blocks
    let big = ch.chance(1, 10, "iso.big");
    let timed = !big && ch.chance(1, 3, "iso.timed");
    let szx = if big { 6 } else { ch.below(3, "iso.szx") as u8 };
    let size = 16usize << szx;
    let mut resources: BTreeMap<Vec<Vec<u8>>, ResSpec> = BTreeMap::new();
    let mut clients = Vec::new();
    // one budget for the server: room for exactly this block size
    let budget = if big { 1152 } else { 40 + size + ch.below(10, "iso.budget.slack") as usize };
    for (ci, (ep, method, path)) in keys.iter().enumerate() {
        let nblocks = if big { 20 + ch.below(45, "iso.nblocks.big") as usize } else { 2 + ch.below(4 + extra_blocks, "iso.nblocks") as usize };
        let len = nblocks * size - ch.below(size as u64, "iso.tail") as usize;
        let r = resources.entry(path.clone()).or_insert_with(|| ResSpec { lens: vec![len], opts: vec![], up_reply_lens: vec![4], own_block2: None, code: None });
        let upload = !(*method == 1 || *method == 5);
        let kind = if upload {
            if ch.chance(1, 3, "iso.updown") {
                // the reply to the upload is itself block-wise
                r.up_reply_lens = vec![2 * size + 3];
            }
            let mut dups = vec![0u8; nblocks];
            for d in dups.iter_mut() {
                if ch.chance(1, 6, "iso.dup") {
                    *d = 1;
                }
            }
            // a duplicate of the final block is the known finding of C09; it
            // behaves the same solo and interleaved, so it stays in
            TKind::Upload { body_id: ch.below(1 << 40, "iso.body"), len, szx, dups, abandon_after: None, adapt: false }
        } else {
            TKind::Download { early: if ch.chance(1, 3, "iso.early") { Some(szx) } else { None }, reduce: None }
        };
        let mut t = default_transfer(*method, path.clone(), kind);
        t.token_len = ch.below(9, "iso.toklen") as usize;
        t.con = !ch.chance(1, 6, "iso.non");
        if big {
            t.stop_after = Some(3 + ch.below(4, "iso.big.stop") as u32);
        }
        let nex = if big { 6 } else { nblocks as u32 + 1 };
        for e in 0..nex {
            if ch.chance(1, 8, "iso.lose") {
                t.lose_replies.push((e, 1));
            }
        }
        clients.push(ClientSpec {
            ep: *ep,
            lanes: vec![LaneSpec { transfers: vec![t], timeout_ms: 1000 }],
            mid0: ch.below(65536, "iso.mid0") as u16,
            tok_seed: ch.below(1 << 40, "iso.tok") + ci as u64,
            net: NetCfg::clean(1),
            via_proxy: false,
        });
    }
    IsoSpec {
        server: ServerCfg { budget, expiry_ns: if timed { 40 * MS + ch.below(60, "iso.expiry") * MS } else { 1_000_000 * SEC }, check_wire: false, snapshots: false, feed_all_types: false, record_held: false, held_every: 1, held_always_from: 0 },
        resources,
        clients,
        pct: ch.below(2, "iso.pct") == 1,
        slow_app: ch.below(2, "iso.slow-app") == 1,
        timed,
    }
}

struct StepClient {
    lane: Lane,
    ids: ClientIds,
    outq: VecDeque<(Vec<u8>, Tag)>,
    pending: Option<Box<Pending>>,
    transcript: Vec<Vec<u8>>,
}

struct StepResult {
    /// per client: the simulated time of each of its server steps
    times: Vec<Vec<u64>>,
    /// per client: the split-phase decision at each application call
    splits: Vec<Vec<bool>>,
    transcripts: Vec<Vec<Vec<u8>>>,
    order: Vec<u8>,
    violations: Vec<Violation>,
    stats: Stats,
    trace: Vec<String>,
    hash: u64,
    server: Server,
}

/// Runs the given clients (all of `spec.clients` or a single one) under the
/// scheduler `pick`.
fn step_world(spec: &IsoSpec, who: &[usize], sched: &mut dyn FnMut(&[usize], usize) -> usize, split: &mut dyn FnMut(usize, usize) -> bool, clock: &mut dyn FnMut(usize, usize, u64) -> u64, verbose: bool) -> StepResult {
    FakeClock::reset();
    let mut now: u64 = 0;
    let mut stats = Stats::default();
    let mut trace = Trace::new(verbose);
    let mut shapes = Vec::new();
    let mut server = Server::new(spec.server.clone());
    server.app.resources = spec.resources.clone();
    let mut cs: Vec<StepClient> = Vec::new();
    for &ci in who {
        let c = &spec.clients[ci];
        cs.push(StepClient {
            lane: Lane::new(ci, 0, c.ep, c.lanes[0].clone()),
            ids: ClientIds { next_mid: c.mid0, ctr: 0, tok_rng: crate::choices::Xoshiro::new(c.tok_seed) },
            outq: VecDeque::new(),
            pending: None,
            transcript: Vec::new(),
        });
    }
    fn absorb(c: &mut StepClient, outs: Vec<Out>, now: u64) {
        let mut work: VecDeque<Out> = outs.into();
        while let Some(o) = work.pop_front() {
            match o {
                Out::Send { bytes, tag } => c.outq.push_back((bytes, tag)),
                Out::Timer { .. } => {}
                Out::StartAfter { .. } => {
                    let more = c.lane.start(now, &mut c.ids);
                    work.extend(more);
                }
                Out::ResumeAfter { .. } => {
                    let more = c.lane.resume(now, &mut c.ids);
                    work.extend(more);
                }
            }
        }
    }
    for c in cs.iter_mut() {
        let outs = c.lane.begin();
        absorb(c, outs, now);
    }
    let mut order = Vec::new();
    let mut steps = 0usize;
    let mut times: Vec<Vec<u64>> = vec![Vec::new(); cs.len()];
    let mut splits: Vec<Vec<bool>> = vec![Vec::new(); cs.len()];
    loop {
        let runnable: Vec<usize> = (0..cs.len()).filter(|&i| cs[i].pending.is_some() || !cs[i].outq.is_empty()).collect();
        if runnable.is_empty() || server.dead || steps > 400 {
            break;
        }
        let i = sched(&runnable, steps);
        steps += 1;
        // the time of this step: one more millisecond, plus a jump drawn by
        // the caller (interleaved run), or the time the same step of this
        // client had in the interleaved run (solo run)
        now = clock(i, times[i].len(), now);
        times[i].push(now);
        FakeClock::set_ns(now);
        let ep = spec.clients[who[i]].ep;
        let reply = if let Some(p) = cs[i].pending.take() {
            order.push(0x80 | i as u8);
            server.finish(*p, now, &mut stats, &mut trace)
        } else {
            let (bytes, tag) = cs[i].outq.pop_front().unwrap();
            order.push(i as u8);
            match server.begin(now, ep, tag, &bytes, false, false, &mut stats, &mut trace, &mut shapes) {
                Step::Done(r) => r,
                Step::NeedsApp(p) => {
                    let decided = split(i, splits[i].len());
                    splits[i].push(decided);
                    if decided {
                        stats.hit("fault.slow-app-split");
                        cs[i].pending = Some(p);
                        continue;
                    }
                    server.finish(*p, now, &mut stats, &mut trace)
                }
            }
        };
        if let Some(rb) = reply {
            let c = &mut cs[i];
            c.transcript.push(rb.clone());
            trace.ev(3, i as u64, &rb);
            if let Some(p) = crate::refparse::accept(&rb) {
                if c.lane.matches(&p) {
                    if c.lane.take_scripted_loss() {
                        stats.hit("fault.scripted-reply-loss");
                        let outs = c.lane.retransmit_now();
                        absorb(c, outs, now);
                    } else {
                        let outs = c.lane.on_reply(now, &p, &rb, &mut c.ids);
                        absorb(c, outs, now);
                    }
                } else {
                    stats.hit("client.stale-reply");
                }
            }
        }
    }
    let violations = std::mem::take(&mut server.violations);
    StepResult { times, splits, transcripts: cs.iter().map(|c| c.transcript.clone()).collect(), order, violations, stats, trace: trace.lines, hash: trace.h.0, server }
}

pub fn run(ch: &mut Ch, verbose: bool) -> Outcome {
    let spec = gen_spec(ch);
    let n = spec.clients.len();
    let mut out = Outcome::new();
    out.faulty_cfg = true;
    // ---- interleaved run under the seeded scheduler ------------------------
    let all: Vec<usize> = (0..n).collect();
    // PCT-style: random priorities plus a few change points
    let mut prio: Vec<u64> = (0..n).map(|_| ch.below(1000, "iso.prio")).collect();
    let change_points: Vec<usize> = (0..2).map(|_| ch.below(30, "iso.pct.change") as usize).collect();
    let pct = spec.pct;
    let slow = spec.slow_app;
    let inter = {
        let ch_cell = std::cell::RefCell::new(&mut *ch);
        let mut sched = |runnable: &[usize], step: usize| -> usize {
            let mut ch = ch_cell.borrow_mut();
            if pct {
                if change_points.contains(&step) {
                    // demote the current leader
                    if let Some(&top) = runnable.iter().max_by_key(|&&i| prio[i]) {
                        prio[top] = 0;
                    }
                }
                *runnable.iter().max_by_key(|&&i| (prio[i], i)).unwrap()
            } else {
                runnable[ch.below(runnable.len() as u64, "iso.sched") as usize]
            }
        };
        let mut split = |_i: usize, _k: usize| -> bool {
            let mut ch = ch_cell.borrow_mut();
            slow && ch.below(2, "iso.split") == 1
        };
        let expiry = spec.server.expiry_ns;
        let timed = spec.timed;
        let mut clock = |_i: usize, _k: usize, now: u64| -> u64 {
            let mut ch = ch_cell.borrow_mut();
            if timed && ch.chance(1, 4, "iso.jump") {
                // 0.3 .. 0.9 of the expiry: no single jump expires anything,
                // two of them do
                now + MS + expiry * (3 + ch.below(7, "iso.jump.tenths")) / 10
            } else {
                now + MS
            }
        };
        step_world(&spec, &all, &mut sched, &mut split, &mut clock, verbose)
    };
    let mut viol = inter.violations.clone();
    let mut stats = inter.stats.clone();
    if spec.timed {
        let mut all_t: Vec<u64> = inter.times.iter().flatten().copied().collect();
        all_t.sort();
        stats.add("fault.clock-jump", all_t.windows(2).filter(|w| w[1] - w[0] > MS).count() as u64);
        for ts in &inter.times {
            if ts.windows(2).any(|w| w[1] - w[0] >= spec.server.expiry_ns) {
                stats.hit("probe.c12.expiry-elapsed-between-two-steps-of-a-transfer");
            }
        }
    }
    if spec.clients.iter().any(|c| c.lanes[0].transfers[0].stop_after.is_some()) {
        stats.hit("probe.c12.large-representations");
    }
    // ---- each client solo against a fresh handler ---------------------------
    for ci in 0..n {
        let mut sched = |runnable: &[usize], _s: usize| -> usize { runnable[0] };
        // the solo run repeats this client's own timeline: the same
        // split-phase decisions at the same simulated times
        let isp = inter.splits[ci].clone();
        let mut split = |_i: usize, k: usize| -> bool { isp.get(k).copied().unwrap_or(false) };
        let its = inter.times[ci].clone();
        let mut clock = |_i: usize, k: usize, now: u64| -> u64 { its.get(k).copied().unwrap_or(now + MS) };
        let solo = step_world(&spec, &[ci], &mut sched, &mut split, &mut clock, false);
        stats.hit("c12.transcripts-compared");
        let a = &inter.transcripts[ci];
        let b = &solo.transcripts[0];
        if a != b {
            let first = a.iter().zip(b.iter()).position(|(x, y)| x != y).unwrap_or(a.len().min(b.len()));
            let t = &spec.clients[ci].lanes[0].transfers[0];
            viol.push(Violation::new(
                "C12",
                "transcript",
                format!(
                    "transfer {} (ep{}, method {}, path {:?}) saw {} replies interleaved and {} solo; first difference at reply {}: interleaved {} vs solo {}",
                    ci,
                    spec.clients[ci].ep,
                    t.method,
                    t.path.iter().map(|s| String::from_utf8_lossy(s).to_string()).collect::<Vec<_>>(),
                    a.len(),
                    b.len(),
                    first,
                    a.get(first).map(|x| describe_reply(x)).unwrap_or_else(|| "nothing".into()),
                    b.get(first).map(|x| describe_reply(x)).unwrap_or_else(|| "nothing".into())
                ),
            ));
        }
        // solo runs are subject to the universal clauses too
        for v in solo.violations {
            if !viol.iter().any(|x| x.prop == v.prop && x.clause == v.clause && x.sig == v.sig) {
                viol.push(v);
            }
        }
    }
    // ---- coverage: distinct interleavings per shape ---------------------------
    let lens: Vec<usize> = (0..n).map(|i| inter.order.iter().filter(|&&o| (o & 0x7F) as usize == i).count()).collect();
    let mut h = Fnv::default();
    h.bytes(&inter.order);
    let mut hs = Fnv::default();
    for l in &lens {
        hs.u64(*l as u64);
    }
    let switches = inter.order.windows(2).filter(|w| (w[0] & 0x7F) != (w[1] & 0x7F)).count();
    if switches >= 1 {
        h.u64(hs.0);
        out.nontrivial.push(h.0);
    }
    out.distinct2.push(hs.0);
    if n == 2 && !inter.order.iter().any(|o| o & 0x80 != 0) {
        out.groups.push((format!("2 transfers, {}+{} server steps", lens[0], lens[1]), h.0));
    }
    if switches == 1 {
        stats.hit("probe.c12.one-runs-to-the-end-then-the-other");
    }
    if inter.order.iter().any(|o| o & 0x80 != 0) {
        stats.hit("probe.c12.split-phase-interleaving");
    }
    out.violations = viol;
    out.hash = inter.hash;
    out.sim_ns = inter.order.len() as u64 * MS;
    out.trace = inter.trace;
    out.stats = stats;
    if verbose {
        out.sample = Some(
            J::obj()
                .set("budget", J::u(spec.server.budget as u64))
                .set("scheduler", J::s(if spec.pct { "pct" } else { "uniform" }))
                .set("slow_app_split_phase", J::Bool(spec.slow_app))
                .set(
                    "transfers",
                    J::Arr(
                        spec.clients
                            .iter()
                            .map(|c| {
                                let t = &c.lanes[0].transfers[0];
                                J::s(format!("ep{} method={} path={:?} kind={:?} lose_replies={:?} toklen={} con={}", c.ep, t.method, t.path.iter().map(|s| String::from_utf8_lossy(s).to_string()).collect::<Vec<_>>(), t.kind, t.lose_replies, t.token_len, t.con))
                            })
                            .collect(),
                    ),
                )
                .set("server_order", J::s(inter.order.iter().map(|o| if o & 0x80 != 0 { format!("{}'", o & 0x7F) } else { format!("{}", o) }).collect::<Vec<_>>().join(" ")))
                .set("server_arrivals", J::u(inter.server.log.len() as u64)),
        );
    }
    out
}
