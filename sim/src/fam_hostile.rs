//! Family `hostile`: parseable but adversarial requests (option bloat, wild
//! block numbers and size exponents, malformed block options, oversized
//! payloads, all four message types), adversarial application replies and
//! budgets from 0 upward, mixed into cooperative transfers on the same keys
//! and with link corruption on.  Decides C11.
use crate::choices::{Ch, Fnv};
use crate::common::*;
use crate::des::*;
use crate::fam_block;
use crate::gen::*;
use crate::server::*;
use crate::world::*;
use coap_lite::{CoapOption, MessageClass, MessageType, Packet};

struct HostileReq {
    bytes: Vec<u8>,
    overhead: usize,
    has_block: bool,
}

fn hostile_request(ch: &mut Ch, paths: &[Vec<Vec<u8>>], mid: u16) -> HostileReq {
    let mut p = Packet::new();
    p.header.set_version(1);
    p.header.set_type(match ch.weighted(&[50, 20, 15, 15], "h.type") {
        0 => MessageType::Confirmable,
        1 => MessageType::NonConfirmable,
        2 => MessageType::Acknowledgement,
        _ => MessageType::Reset,
    });
    let method = if ch.chance(1, 12, "h.unknown-method") { 8 + ch.below(24, "h.method") as u8 } else { 1 + ch.below(7, "h.method") as u8 };
    p.header.code = MessageClass::from(method);
    p.header.message_id = mid;
    let tl = ch.below(9, "h.toklen") as usize;
    p.set_token((0..tl).map(|i| (mid as u8).wrapping_add(i as u8)).collect());
    // path: mostly a real key, sometimes invalid UTF-8
    let path = &paths[ch.below(paths.len() as u64, "h.path") as usize];
    for seg in path {
        p.add_option(CoapOption::UriPath, seg.clone());
    }
    if ch.chance(1, 10, "h.badutf8") {
        p.add_option(CoapOption::UriPath, vec![0xFF, 0xFE, 0x61]);
    }
    // option bloat 0..1400 bytes, so that the overhead lands below, at and
    // above the budget and above 1280
    match ch.weighted(&[40, 20, 15, 15, 10], "h.bloat") {
        0 => {}
        1 => {
            let n = ch.below(60, "h.bloat.small") as usize;
            p.add_option(CoapOption::UriQuery, vec![0x71; n]);
        }
        2 => {
            let n = 200 + ch.below(200, "h.bloat.mid") as usize;
            p.add_option(CoapOption::from(2049), vec![0x72; n]);
        }
        3 => {
            let n = 1100 + ch.below(301, "h.bloat.big") as usize;
            p.add_option(CoapOption::from(2049), vec![0x73; n]);
        }
        _ => {
            let k = 1 + ch.below(6, "h.bloat.k") as usize;
            for _ in 0..k {
                p.add_option(CoapOption::UriQuery, vec![0x74; 250]);
            }
        }
    }
    // Size1 / Size2 announcements, small and huge
    if ch.chance(1, 6, "h.size1") {
        let v = *ch.pick(&[0u32, 16, 4096, 70_000, 10_000_000], "h.size1.v");
        p.add_option(CoapOption::Size1, crate::refparse::uint_bytes(v as u64));
    }
    if ch.chance(1, 12, "h.size2") {
        p.add_option(CoapOption::Size2, crate::refparse::uint_bytes(*ch.pick(&[0u32, 16, 100_000], "h.size2.v") as u64));
    }
    let mut has_block = false;
    let mut block = |ch: &mut Ch, p: &mut Packet, opt: CoapOption, has_block: &mut bool| match ch.weighted(&[40, 45, 15], "h.block.kind") {
        0 => {}
        1 => {
            let num = *ch.pick(&[0u16, 1, 2, 100, 4095, 16, 17, 1023, 1024, 1025], "h.block.num");
            let more = ch.below(2, "h.block.more") == 1;
            let szx = ch.below(8, "h.block.szx") as u8;
            p.add_option_as(opt, coap_lite::block_handler::BlockValue { num, more, size_exponent: szx });
            *has_block = true;
        }
        _ => {
            let n = *ch.pick(&[3usize, 4, 5, 0, 2], "h.block.rawlen");
            let v: Vec<u8> = (0..n).map(|_| ch.below(256, "h.block.raw") as u8).collect();
            p.add_option(opt, v);
            *has_block = true;
        }
    };
    block(ch, &mut p, CoapOption::Block1, &mut has_block);
    block(ch, &mut p, CoapOption::Block2, &mut has_block);
    let pl = match ch.weighted(&[35, 20, 20, 15, 10], "h.paylen.mode") {
        0 => 0,
        1 => 16usize << ch.below(7, "h.pay.szx"),
        2 => (16usize << ch.below(7, "h.pay.szx")) + 1,
        3 => ch.below(1201, "h.pay.rnd") as usize,
        _ => 1200,
    };
    p.payload = vec![0x5A; pl.min(1200)];
    let overhead = overhead_of(&p);
    HostileReq { bytes: ref_encode(&p), overhead, has_block }
}

pub fn gen_spec(ch: &mut Ch) -> WorldSpec {
    // cooperative clients run alongside, so that hostile requests land in
    // the middle of real transfers on the same keys
    let mut spec = fam_block::gen_spec(ch);
    spec.server.snapshots = true;
    spec.server.feed_all_types = true;
    spec.max_events = 8000;
    if ch.chance(1, 3, "h.no-coop") {
        spec.clients.clear();
    }
    // adversarial application replies
    for r in spec.resources.values_mut() {
        match ch.weighted(&[50, 15, 15, 10, 10], "h.app") {
            0 => {}
            1 => r.opts.push((2049, vec![vec![0x41; 300 + ch.below(1100, "h.app.optlen") as usize]])),
            2 => r.own_block2 = Some((ch.below(3, "h.app.b2num") as u16, ch.below(2, "h.app.b2more") == 1, ch.below(8, "h.app.b2szx") as u8)),
            3 => r.lens = vec![ch.below(10001, "h.app.len") as usize],
            _ => r.lens = vec![0],
        }
    }
    let paths: Vec<Vec<Vec<u8>>> = spec.resources.keys().cloned().collect();
    let mut focus: Vec<(usize, bool)> = Vec::new();
    let nh = 1 + ch.below(if thorough() { 4 } else { 3 }, "h.nclients") as usize;
    for hi in 0..nh {
        let n = 1 + ch.below(if thorough() { 16 } else { 8 }, "h.nreq") as usize;
        let mut dgs = Vec::new();
        for k in 0..n {
            let r = hostile_request(ch, &paths, (hi * 100 + k) as u16);
            focus.push((r.overhead, r.has_block));
            dgs.push(r.bytes);
        }
        let mut t = default_transfer(1, vec![], TKind::Raw { datagrams: dgs, gap_ns: (1 + ch.below(30, "h.gap")) * MS });
        t.tag_kind = TagKind::Hostile;
        t.pre_gap_ns = ch.below(50, "h.pregap") * MS;
        let lane = LaneSpec { transfers: vec![t], timeout_ms: 2000 };
        // share the endpoint of a cooperative client?
        if !spec.clients.is_empty() && ch.chance(1, 2, "h.share-endpoint") {
            let ci = ch.below(spec.clients.len() as u64, "h.share.which") as usize;
            spec.clients[ci].lanes.push(lane);
        } else {
            let mut net = NetCfg::clean(1 + ch.below(10, "h.net.base"));
            if ch.chance(1, 4, "h.corrupt") {
                net.corrupt_pm = 100 + ch.below(300, "h.corrupt_pm");
                net.corrupt_kinds = 1 + ch.below(63, "h.corrupt.kinds") as u32;
            }
            if ch.chance(1, 4, "h.dup") {
                net.dup_pm = 100;
            }
            spec.clients.push(ClientSpec { ep: 500 + hi as Ep, lanes: vec![lane], mid0: 0, tok_seed: 3, net, via_proxy: false });
        }
    }
    // budgets: every value 0..64, 1152, random 0..5000, and exactly
    // overhead+12 / +11 / +13 of a request about to be sent
    let (fo, _fb) = focus[ch.below(focus.len() as u64, "h.focus") as usize];
    spec.server.budget = match ch.weighted(&[25, 10, 20, 35, 10], "h.budget.mode") {
        0 => ch.below(65, "h.budget.small") as usize,
        1 => 1152,
        2 => ch.below(5001, "h.budget.rnd") as usize,
        3 => (fo + 11 + ch.below(3, "h.budget.edge") as usize).min(6000),
        _ => fo + 12 + (16usize << ch.below(7, "h.budget.k")) - 1 + ch.below(3, "h.budget.kd") as usize,
    };
    spec
}

fn abstract_arrival(a: &Arrival, budget: usize) -> u64 {
    let mut h = Fnv::default();
    h.byte(a.mtype);
    h.byte(if (1..=7).contains(&a.code) { a.code } else { 99 });
    let bc = |b: Option<(u16, bool, u8)>| -> u64 {
        match b {
            None => 0,
            Some((n, m, s)) => 1 + (match n {
                0 => 0,
                1 => 1,
                2..=15 => 2,
                16..=255 => 3,
                _ => 4,
            }) * 16 + (m as u64) * 8 + s as u64,
        }
    };
    h.u64(bc(a.block1));
    h.u64(bc(a.block2));
    h.u64(match a.payload.len() {
        0 => 0,
        1..=16 => 1,
        17..=1024 => 2,
        _ => 3,
    });
    let rel = a.req_overhead as i64 + 12 - budget as i64;
    h.u64(match rel {
        i64::MIN..=-17 => 0,
        -16..=-1 => 1,
        0 => 2,
        1..=12 => 3,
        _ => 4,
    });
    h.byte((a.req_overhead > 1280) as u8);
    h.bytes(format!("{:?}{:?}", a.ireq, a.iresp).as_bytes());
    h.0
}

pub fn run(ch: &mut Ch, verbose: bool) -> Outcome {
    let spec = gen_spec(ch);
    let mut r = run_world(&spec, ch, verbose);
    let mut out = Outcome::new();
    out.faulty_cfg = true;
    let mut stats = std::mem::take(&mut r.stats);
    let budget = spec.server.budget;
    for a in &r.server.log {
        if !a.is_request {
            continue;
        }
        stats.hit("c11.requests-fed-to-handler");
        if a.tag.kind == TagKind::Hostile || a.corrupted {
            out.nontrivial.push(abstract_arrival(a, budget));
        }
        if a.req_overhead > 1280 {
            stats.hit("probe.c11.request-overhead-above-1280");
        }
        if (a.block1.is_some() || a.block2.is_some()) && budget == a.req_overhead + 12 {
            stats.hit("probe.c11.budget-equals-overhead+12-with-block-option");
        }
        if a.mtype > 1 && a.block1.map_or(false, |b| b.1) {
            stats.hit("probe.c11.no-response-with-block1-more");
        }
        if let Some(ov) = a.resp_overhead {
            if ov > 1280 {
                stats.hit("probe.c11.reply-overhead-above-1280");
            }
            if budget == ov + 12 {
                stats.hit("probe.c11.budget-equals-reply-overhead+12");
            }
        }
        if matches!(a.ireq, Some(HOut::Err(_))) || matches!(a.iresp, Some(HOut::Err(_))) {
            stats.hit("c11.clean-errors");
        }
    }
    out.units = (out.nontrivial.len() as u64).max(1);
    out.nontrivial.sort_unstable();
    out.nontrivial.dedup();
    out.violations = std::mem::take(&mut r.violations);
    out.hash = r.trace.h.0;
    out.sim_ns = r.sim_ns;
    out.trace = std::mem::take(&mut r.trace.lines);
    if verbose {
        out.sample = Some(fam_block::sample_json(&spec, &r));
    }
    out.stats = stats;
    out
}
