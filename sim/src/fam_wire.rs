//! Family `wire`: the parser on the transport seam.  The traffic of a
//! block-wise deployment (requests with option sets on the codec boundaries,
//! replies, a byzantine sender) crosses links that truncate and corrupt
//! datagrams; half of the clients sit behind a forwarding proxy that parses
//! and re-serialises every datagram.  Wherever a node parses a datagram the
//! reference parser decides C03 (total, accepts well-formed, rejects
//! malformed, right fields) and C02 (lossless re-encoding); whatever the
//! real parser accepts goes on into the real server pipeline in the same run.
use crate::choices::Ch;
use crate::common::*;
use crate::des::*;
use crate::fam_block;
use crate::gen::*;
use crate::server::*;
use crate::world::*;

/// Request options sitting on the delta / length codec boundaries.
fn boundary_opts(ch: &mut Ch) -> Vec<(u16, Vec<u8>)> {
    let mut v = Vec::new();
    let n = 1 + ch.below(3, "w.nopts") as usize;
    for _ in 0..n {
        // numbers chosen so that deltas hit 12/13/14, 268/269/270, 258 first,
        // 2000 and the end of the 16-bit space (after Uri-Path = 11)
        let num = *ch.pick(&[258u16, 23, 24, 25, 279, 280, 281, 269, 270, 2000, 2049, 65000, 65535, 3, 15, 60, 35, 12, 13, 14, 268], "w.optnum");
        let len = *ch.pick(&[0usize, 1, 12, 13, 14, 15, 268, 269, 270, 300, 1000, 2, 8], "w.optlen");
        let fill = ch.below(256, "w.optfill") as u8;
        v.push((num, vec![fill; len]));
    }
    v
}

/// A well-formed message whose recognised options and payload carry the
/// values that "helpful" normalisation would touch: content formats with
/// textual payloads (byte order mark, surrounding white space, NUL), URIs with
/// upper case, dot segments, percent escapes and default ports, integers with
/// leading zeros.  A parser has to hand all of it through unchanged.
fn meaningful_datagram(ch: &mut Ch) -> Vec<u8> {
    let mut opts: Vec<(u32, Vec<u8>)> = Vec::new();
    let n = 1 + ch.below(4, "sem.nopts");
    for _ in 0..n {
        let (num, vals): (u32, &[&[u8]]) = match ch.below(12, "sem.opt") {
            0 => (12, &[b"", b"\x00", b"\x28", b"\x29", b"\x2a", b"\x2f", b"\x32", b"\x3c", b"\x2d\x16", b"\x00\x32"]),
            1 => (17, &[b"", b"\x28", b"\x32", b"\x00\x00"]),
            2 => (3, &[b"EXAMPLE.com", b"example.com.", b"[::1]", b"h", b"xn--nxasmq6b"]),
            3 => (11, &[b".", b"..", b"%2e%2E", b"A", b"a", b"", b" a ", b"a%20b", b".well-known", b"core"]),
            4 => (15, &[b"a=b&c=d", b"A=1", b"", b"q=%41", b" x", b"a=1;b=2"]),
            5 => (35, &[b"HTTP://H/p", b"coap://h:5683/x", b"CoAP://h/../x", b"coaps://h/%7e", b"coap://h/x/"]),
            6 => (7, &[b"\x16\x33", b"", b"\x00\x50", b"\x16\x34"]),
            7 => (8, &[b"..", b"a", b"", b"%2F"]),
            8 => (14, &[b"", b"\x3c", b"\x00\x3c", b"\xff\xff\xff\xff"]),
            9 => (39, &[b"HTTP", b"coap", b"coap+tcp"]),
            10 => (4, &[b"\x00", b"\x00\x00\x00\x00\x00\x00\x00\x00", b"etag", b"\xef\xbb\xbf"]),
            _ => (20, &[b"a/../b", b"A", b"", b"x=%31"]),
        };
        let v = vals[ch.below(vals.len() as u64, "sem.val") as usize];
        opts.push((num, v.to_vec()));
    }
    let prefix: &[u8] = match ch.below(10, "sem.pay.prefix") {
        0 => b"",
        1 => b"\xef\xbb\xbf",
        2 => b" ",
        3 => b"\r\n",
        4 => b"\x00",
        5 => b"\xff",
        6 => b"\xfe\xff",
        7 => b"\t",
        8 => b"{",
        _ => b"</",
    };
    let body: &[u8] = match ch.below(6, "sem.pay.body") {
        0 => b"",
        1 => b"text",
        2 => b"{\"a\":1}",
        3 => b"</a>;rt=\"x\",</b>",
        4 => b"22.5 C",
        _ => b"\xc3\xa9",
    };
    let suffix: &[u8] = match ch.below(7, "sem.pay.suffix") {
        0 => b"",
        1 => b"\n",
        2 => b"\r\n",
        3 => b" ",
        4 => b"\x00",
        5 => b"\xff",
        _ => b"\xef\xbb\xbf",
    };
    let mut payload = prefix.to_vec();
    payload.extend_from_slice(body);
    payload.extend_from_slice(suffix);
    let code = *ch.pick(&[1u8, 2, 3, 0x45, 0x44, 5, 0x84], "sem.code");
    let tl = ch.below(3, "sem.toklen") as usize;
    let token: Vec<u8> = (0..tl).map(|i| 0x30 + i as u8).collect();
    crate::refparse::encode(1, ch.below(4, "sem.type") as u8, code, ch.below(65536, "sem.mid") as u16, &token, &opts, &payload)
}

fn byzantine_datagram(ch: &mut Ch) -> Vec<u8> {
    if ch.chance(1, 6, "byz.meaningful") {
        return meaningful_datagram(ch);
    }
    if ch.chance(1, 6, "byz.raw") {
        // raw random string of length 0..12
        let n = ch.below(13, "byz.rawlen") as usize;
        return (0..n).map(|_| ch.below(256, "byz.rawbyte") as u8).collect();
    }
    if ch.chance(1, 80, "byz.huge") {
        // the 64 KiB corner: one option whose 16-bit extended length is at or
        // near its maximum, with the whole value present
        let ext = *ch.pick(&[0xFEF2u16, 0xFEF3, 0xFFFF, 0xFF00, 0xFEF1], "byz.huge.ext");
        let len = ext as usize + 269;
        let fill = *ch.pick(&[0x00u8, 0x41, 0xFF, 0x10], "byz.huge.fill");
        let mut b = vec![0x40, 0x01, 0x12, 0x34, 0x1E, (ext >> 8) as u8, ext as u8];
        b.extend(std::iter::repeat(fill).take(len));
        match ch.below(3, "byz.huge.tail") {
            0 => {}
            1 => b.extend_from_slice(&[0xFF, 0x70, 0x71]),
            _ => b.extend_from_slice(&[0x11, 0x55]),
        }
        return b;
    }
    let ver = if ch.chance(1, 8, "byz.ver") { ch.below(4, "byz.verv") as u8 } else { 1 };
    let typ = ch.below(4, "byz.type") as u8;
    let tkl = if ch.chance(1, 6, "byz.tklbad") { 9 + ch.below(7, "byz.tkl") as u8 } else { ch.below(9, "byz.tkl") as u8 };
    let code = *ch.pick(&[1u8, 2, 3, 0, 0x45, 0x5F, 0x80, 0xFF, 5, 0x1F, 0x20], "byz.code");
    let mut b = vec![(ver << 6) | (typ << 4) | tkl, code, ch.below(256, "byz.mid") as u8, ch.below(256, "byz.mid") as u8];
    let tok_actual = if ch.chance(1, 8, "byz.toktrunc") { ch.below(tkl as u64 + 1, "byz.toklen") as usize } else { tkl as usize };
    for _ in 0..tok_actual.min(15) {
        b.push(ch.below(256, "byz.tok") as u8);
    }
    let nopts = ch.below(6, "byz.nopts") as usize;
    for _ in 0..nopts {
        let dn = *ch.pick(&[0u8, 1, 11, 12, 13, 14, 15, 13, 14, 2], "byz.dn");
        let ln = *ch.pick(&[0u8, 1, 4, 12, 13, 14, 15, 13, 14, 2], "byz.ln");
        b.push((dn << 4) | ln);
        if ch.chance(1, 12, "byz.cut") {
            return b;
        }
        let mut length = ln as usize;
        if dn == 13 {
            b.push(*ch.pick(&[0u8, 1, 242, 243, 244, 245, 255, 100], "byz.d8"));
        } else if dn == 14 {
            let v = *ch.pick(&[0u16, 1, 0xFEF2, 0xFEF3, 0xFFFF, 0x8000, 1731, 300], "byz.d16");
            b.push((v >> 8) as u8);
            if ch.chance(1, 12, "byz.cut") {
                return b;
            }
            b.push(v as u8);
        }
        if ln == 13 {
            let e = *ch.pick(&[0u8, 1, 2, 242, 243, 255, 20], "byz.l8");
            b.push(e);
            length = e as usize + 13;
        } else if ln == 14 {
            let v = *ch.pick(&[0u16, 1, 2, 0xFEF2, 0xFFFF, 31, 700], "byz.l16");
            b.push((v >> 8) as u8);
            if ch.chance(1, 12, "byz.cut") {
                return b;
            }
            b.push(v as u8);
            length = v as usize + 269;
        }
        let actual = if ch.chance(1, 6, "byz.valtrunc") { ch.below(length.min(40) as u64 + 1, "byz.vallen") as usize } else { length.min(1400) };
        let fill = ch.below(256, "byz.fill") as u8;
        for _ in 0..actual {
            b.push(fill);
        }
        if actual < length {
            return b;
        }
    }
    if ch.chance(1, 2, "byz.marker") {
        b.push(0xFF);
        let n = ch.below(9, "byz.paylen") as usize;
        for _ in 0..n {
            b.push(ch.below(256, "byz.pay") as u8);
        }
    }
    b
}

pub fn gen_spec(ch: &mut Ch) -> WorldSpec {
    let mut spec = fam_block::gen_spec(ch);
    spec.server.check_wire = true;
    spec.server.feed_all_types = true;
    spec.max_events = 6000;
    for c in spec.clients.iter_mut() {
        c.via_proxy = ch.below(2, "w.proxy") == 1;
        if ch.chance(4, 5, "w.corrupt-on") {
            c.net.corrupt_pm = 50 + ch.below(550, "w.corrupt_pm");
            // swarm: a random non-empty subset of the corruption kinds
            let mut kinds = ch.below(64, "w.kinds") as u32;
            if kinds == 0 {
                kinds = 1 << ch.below(6, "w.kind1");
            }
            c.net.corrupt_kinds = kinds;
        }
        for l in c.lanes.iter_mut() {
            for t in l.transfers.iter_mut() {
                if ch.chance(1, 2, "w.boundary-opts") {
                    t.extra = boundary_opts(ch);
                }
                // keep transfers short: the parser is the subject here
                if let TKind::Upload { len, .. } = &mut t.kind {
                    *len = (*len).min(600);
                }
            }
        }
    }
    for r in spec.resources.values_mut() {
        for l in r.lens.iter_mut() {
            *l = (*l).min(800);
        }
    }
    // a byzantine sender
    if ch.chance(7, 10, "w.byz") {
        let n = 1 + ch.below(if thorough() { 100 } else { 30 }, "byz.n") as usize;
        let dgs: Vec<Vec<u8>> = (0..n).map(|_| byzantine_datagram(ch)).collect();
        let mut t = default_transfer(1, vec![], TKind::Raw { datagrams: dgs, gap_ns: (1 + ch.below(10, "byz.gap")) * MS });
        t.tag_kind = TagKind::Hostile;
        let via_proxy = ch.below(2, "byz.proxy") == 1;
        spec.clients.push(ClientSpec { ep: 666, lanes: vec![LaneSpec { transfers: vec![t], timeout_ms: 2000 }], mid0: 0, tok_seed: 2, net: NetCfg::clean(2), via_proxy });
    }
    spec
}

pub fn run(ch: &mut Ch, verbose: bool) -> Outcome {
    let spec = gen_spec(ch);
    let mut r = run_world(&spec, ch, verbose);
    let mut out = Outcome::new();
    out.faulty_cfg = spec.clients.iter().any(|c| c.net.faulty());
    out.violations = std::mem::take(&mut r.violations);
    out.hash = r.trace.h.0;
    out.sim_ns = r.sim_ns;
    out.trace = std::mem::take(&mut r.trace.lines);
    out.nontrivial = std::mem::take(&mut r.shapes);
    out.nontrivial.sort_unstable();
    out.nontrivial.dedup();
    if verbose {
        out.sample = Some(fam_block::sample_json(&spec, &r));
    }
    out.stats = std::mem::take(&mut r.stats);
    out
}
