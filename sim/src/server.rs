//! The server node: glue written from README.md / examples/server.rs around
//! the REAL `Packet::from_bytes`, `CoapRequest::from_packet`,
//! `BlockHandler::intercept_request/response`, `apply_from_error` and
//! `Packet::to_bytes*`; the application behind it is a stub resource table.
//! Every delivered datagram is logged as an `Arrival` (the simulator's ground
//! truth); universal oracle clauses (C02 C03 C07 C10 C11 C12/reply-ids) are
//! evaluated inline, transfer-level ones (C08 C09 C12 C20) over the log.
use crate::common::*;
use crate::des::Stats;
use crate::refparse::{self, Verdict};
use coap_lite::block_handler::BlockValue;
use coap_lite::error::HandlingError;
use coap_lite::{BlockHandler, BlockHandlerConfig, CoapOption, CoapRequest, MessageClass, MessageType, Packet, ResponseType};
use std::collections::BTreeMap;
use std::time::Duration;

/// Ground-truth tag the simulator attaches to every datagram a client sends.
#[derive(Clone, Copy, Debug, Default, PartialEq, Eq)]
pub struct Tag {
    pub client: u16,
    pub lane: u16,
    pub transfer: u16,
    pub exch: u32,
    /// 0 = first transmission; >0 = scripted duplicate / retransmission
    pub copy: u16,
    pub kind: TagKind,
}

#[derive(Clone, Copy, Debug, Default, PartialEq, Eq)]
pub enum TagKind {
    #[default]
    Coop,
    Probe,
    Noise,
    Hostile,
}

pub type Key = (u8, Vec<Vec<u8>>);

#[derive(Clone, Debug, PartialEq)]
pub enum HOut {
    Handled,
    Pass,
    Err(Option<u8>),
    Panic,
}

#[derive(Clone, Debug)]
pub struct AppCall {
    pub version: u32,
    pub body_out_id: u64,
    pub body_out_len: usize,
    pub body_in: Vec<u8>,
    pub opts_out: Vec<(u16, Vec<Vec<u8>>)>,
    pub found: bool,
    /// code byte the application put on its reply
    pub code: u8,
}

#[derive(Clone, Debug)]
pub struct Arrival {
    pub seq: usize,
    pub time: u64,
    /// when the exchange was finished (later than `time` only in split-phase)
    pub time_done: u64,
    /// global order in which the server took the datagram up / finished it
    pub tick_begin: u64,
    pub tick_done: u64,
    pub from: Ep,
    pub tag: Tag,
    /// the bytes delivered differ from the bytes the client sent
    pub corrupted: bool,
    /// a network-made duplicate (not a client retransmission)
    pub net_dup: bool,
    pub parsed: bool,
    pub is_request: bool,
    pub mtype: u8,
    pub code: u8,
    pub mid: u16,
    pub token: Vec<u8>,
    pub key: Option<Key>,
    pub block1: Option<(u16, bool, u8)>,
    pub block2: Option<(u16, bool, u8)>,
    pub payload: Vec<u8>,
    pub req_overhead: usize,
    pub ireq: Option<HOut>,
    pub app: Option<AppCall>,
    pub resp_overhead: Option<usize>,
    pub iresp: Option<HOut>,
    pub reply: Option<Vec<u8>>,
    pub bytes_len: usize,
}

pub struct Pending {
    pub arr: Arrival,
    pub req: CoapRequest<Ep>,
    pub pending_err: Option<HandlingError>,
    pub req_mid: u16,
    pub req_token: Vec<u8>,
    pub key: Key,
    pub bytes: Vec<u8>,
    pub from: Ep,
    pub tag: Tag,
    pub corrupted: bool,
    pub net_dup: bool,
    pub fields: Option<refparse::Fields>,
}

pub enum Step {
    Done(Option<Vec<u8>>),
    NeedsApp(Box<Pending>),
}

#[derive(Clone, Debug, Default)]
pub struct ResSpec {
    /// body length per version for GET / FETCH (cycled)
    pub lens: Vec<usize>,
    /// options the application puts on every reply
    pub opts: Vec<(u16, Vec<Vec<u8>>)>,
    /// body length of the reply to PUT / POST / ... per version (cycled)
    pub up_reply_lens: Vec<usize>,
    /// the application sets a Block2 option of its own (hostile family only)
    pub own_block2: Option<(u16, bool, u8)>,
    /// the application answers with this (error) code instead of 2.05 / 2.04
    pub code: Option<u8>,
}

pub struct App {
    pub resources: BTreeMap<Vec<Vec<u8>>, ResSpec>,
    pub counts: BTreeMap<(Ep, u8, Vec<Vec<u8>>), u32>,
    pub calls: u64,
}

pub fn body_id(ep: Ep, method: u8, path: &[Vec<u8>], version: u32) -> u64 {
    let mut h = crate::choices::Fnv::default();
    h.u64(ep as u64);
    h.byte(method);
    for s in path {
        h.bytes(s);
    }
    h.u64(version as u64);
    // every other response body is "patterned" (zero bytes, runs, text, a
    // trailing 0xFF); nothing depends on zero-freeness of downloads
    if h.0 & 1 == 1 {
        h.0 | BODY_PATTERNED
    } else {
        h.0 & !BODY_PATTERNED
    }
}

pub fn raw_path(p: &Packet) -> Vec<Vec<u8>> {
    p.get_option(CoapOption::UriPath).map(|l| l.iter().cloned().collect()).unwrap_or_default()
}

impl App {
    pub fn new() -> App {
        App { resources: BTreeMap::new(), counts: BTreeMap::new(), calls: 0 }
    }

    /// The application: deterministic in (endpoint, method, path, per-key
    /// invocation count), so that stale cached data is distinguishable from a
    /// fresh invocation and solo and interleaved runs see the same behaviour.
    pub fn handle(&mut self, req: &mut CoapRequest<Ep>) -> AppCall {
        self.calls += 1;
        let method = u8::from(req.message.header.code);
        let path = raw_path(&req.message);
        let ep = req.source.unwrap_or(0);
        let cnt = self.counts.entry((ep, method, path.clone())).or_insert(0);
        let version = *cnt;
        *cnt += 1;
        let body_in = req.message.payload.clone();
        let Some(spec) = self.resources.get(&path) else {
            if let Some(r) = req.response.as_mut() {
                r.message.header.code = MessageClass::Response(ResponseType::NotFound);
                r.message.payload = b"nf".to_vec();
            }
            return AppCall { version, body_out_id: 0, body_out_len: 2, body_in, opts_out: vec![], found: false, code: 0x84 };
        };
        let is_read = method == 1 || method == 5;
        let lens = if is_read { &spec.lens } else { &spec.up_reply_lens };
        let len = if lens.is_empty() { 0 } else { lens[version as usize % lens.len()] };
        let mut id = body_id(ep, method, &path, version);
        if !is_read {
            // the reply to an upload reflects what was delivered
            let mut hb = crate::choices::Fnv::default();
            hb.bytes(&body_in);
            id ^= hb.0 & 0xFFFF_FFFF_FFFF;
        }
        if let Some(r) = req.response.as_mut() {
            r.message.header.code = match spec.code {
                Some(c) => MessageClass::from(c),
                None => MessageClass::Response(if is_read { ResponseType::Content } else { ResponseType::Changed }),
            };
            r.message.payload = gen_body(id, len);
            for (num, vals) in &spec.opts {
                for v in vals {
                    r.message.add_option(CoapOption::from(*num), v.clone());
                }
            }
            if let Some((n, m, s)) = spec.own_block2 {
                r.message.add_option_as(CoapOption::Block2, BlockValue { num: n, more: m, size_exponent: s });
            }
        }
        let code = spec.code.unwrap_or(if is_read { 0x45 } else { 0x44 });
        AppCall { version, body_out_id: id, body_out_len: len, body_in, opts_out: spec.opts.clone(), found: true, code }
    }
}

#[derive(Clone, Debug)]
pub struct ServerCfg {
    pub budget: usize,
    pub expiry_ns: u64,
    /// evaluate the reference-parser oracle (C02/C03) on every datagram
    pub check_wire: bool,
    /// take hook snapshots around every handler call (C11 growth clauses)
    pub snapshots: bool,
    /// feed ACK/RST typed requests to the handler as well (hostile family)
    pub feed_all_types: bool,
    /// record, after every handler call, which cache entries are physically
    /// held (hook snapshot at rewound clock; expiry family)
    pub record_held: bool,
    /// with record_held: take the snapshot only after every n-th arrival
    /// (0/1 = every arrival) and after every arrival from `held_always_from`
    pub held_every: u32,
    pub held_always_from: Ep,
}

pub struct Server {
    pub cfg: ServerCfg,
    pub handler: BlockHandler<Ep>,
    pub app: App,
    pub log: Vec<Arrival>,
    pub violations: Vec<Violation>,
    /// per cache key: size of the last Block2 the server sent (C10 premise)
    pub last_b2_size: BTreeMap<(Ep, Key), usize>,
    /// token length on the fresh response for which that size was chosen
    pub last_b2_toklen: BTreeMap<(Ep, Key), usize>,
    pub dead: bool,
    /// (arrival seq, entries held after it) when cfg.record_held
    pub held_log: Vec<(usize, Vec<(Ep, u8, Vec<String>)>)>,
    pub tick: u64,
}

/// Block option of a message object, decoded from its raw option bytes with
/// the reference decoder (values longer than two bytes are invalid for the
/// crate, which reads a 16-bit scalar).
fn block_of(p: &Packet, o: CoapOption) -> Option<(u16, bool, u8)> {
    p.get_first_option(o).filter(|v| v.len() <= 2).and_then(|v| refparse::block_decode(v)).map(|(n, m, s)| (n as u16, m, s))
}

pub fn szx_size(szx: u8) -> usize {
    1usize << (szx as usize + 4)
}

fn mtype_num(t: MessageType) -> u8 {
    match t {
        MessageType::Confirmable => 0,
        MessageType::NonConfirmable => 1,
        MessageType::Acknowledgement => 2,
        MessageType::Reset => 3,
    }
}

/// Flattened (number, value) list of a packet, in encoding order.
pub fn flat_opts(p: &Packet) -> Vec<(u32, Vec<u8>)> {
    let mut v = Vec::new();
    for (num, list) in p.options() {
        for val in list.iter() {
            v.push((*num as u32, val.clone()));
        }
    }
    v
}

/// C02 / C03 oracle for one datagram at a point where the system parses it.
/// Returns the parse result of the real parser (None after a panic).
pub fn check_parse(bytes: &[u8], stats: &mut Stats, viol: &mut Vec<Violation>, shapes: &mut Vec<u64>) -> Option<Result<Packet, ()>> {
    let (verdict, shape) = refparse::parse(bytes);
    let (cls, reason) = verdict.class();
    stats.hit(match cls {
        "must-reject" => "wire.ref.must-reject",
        "either" => "wire.ref.either",
        _ => "wire.ref.must-accept",
    });
    {
        let mut h = crate::choices::Fnv::default();
        h.bytes(cls.as_bytes());
        h.bytes(reason.as_bytes());
        h.byte(shape.delta_classes);
        h.byte(shape.len_classes);
        h.byte(shape.nopts.min(6));
        h.byte(if bytes.len() >= 1 { bytes[0] & 0x0F } else { 255 });
        h.byte(verdict.fields().map_or(2, |f| f.marker_pos.is_some() as u8));
        h.byte(verdict.fields().map_or(0, |f| (f.payload.len().min(3)) as u8));
        shapes.push(h.0);
    }
    let res = guard(|| Packet::from_bytes(bytes));
    match res {
        Err(msg) => {
            stats.hit("wire.real.panic");
            viol.push(
                Violation::new("C03", "panic", format!("from_bytes panicked: {} on {}", msg, short(bytes)))
                    .with_sig(&format!("panic@{}", panic_site(&msg))),
            );
            None
        }
        Ok(Err(_)) => {
            stats.hit("wire.real.reject");
            if let Verdict::MustAccept(_) = verdict {
                viol.push(Violation::new("C03", "rejected-wellformed", format!("well-formed datagram rejected: {}", short(bytes))));
            }
            Some(Err(()))
        }
        Ok(Ok(p)) => {
            stats.hit("wire.real.accept");
            match &verdict {
                Verdict::MustReject(r) => {
                    viol.push(
                        Violation::new("C03", "accepted-malformed", format!("malformed datagram ({}) accepted: {}", r, short(bytes))).with_sig(r),
                    );
                    // C02 speaks about every byte string the parser accepts,
                    // also those it should not have: re-encoding must give the
                    // input back (grammar-free form of the two permitted
                    // differences: a trailing marker, the payload of a 0.00)
                    if let Ok(Ok(out)) = guard(|| p.to_bytes_unlimited()) {
                        let ok = out == bytes
                            || (bytes.last() == Some(&0xFF) && out == bytes[..bytes.len() - 1])
                            || (bytes.len() > out.len() && bytes[1] == 0 && bytes.starts_with(&out) && bytes[out.len()] == 0xFF);
                        if !ok {
                            viol.push(Violation::new("C02", "reencode", format!("accepted (malformed: {}) {} re-encodes to {}", r, short(bytes), short(&out))).with_sig("reencode-of-malformed"));
                        }
                    }
                }
                Verdict::Either(_, f) | Verdict::MustAccept(f) => {
                    let ok = p.header.get_version() == f.b0 >> 6
                        && mtype_num(p.header.get_type()) == (f.b0 >> 4) & 3
                        && p.header.get_token_length() == f.b0 & 0x0F
                        && u8::from(p.header.code) == f.code
                        && p.header.message_id == f.mid
                        && p.get_token() == &f.token[..]
                        && flat_opts(&p) == f.opts
                        && p.payload == f.payload;
                    // "exactly the fields that grammar defines" is stated for
                    // version 1; what an implementation that accepts another
                    // version makes of it is not
                    if !ok && f.b0 >> 6 == 1 {
                        viol.push(Violation::new(
                            "C03",
                            "fields",
                            format!("accepted datagram parsed to other fields than the grammar defines: {} -> opts {:?} (expected {:?})", short(bytes), flat_opts(&p).iter().map(|(n, v)| (*n, v.len())).collect::<Vec<_>>(), f.opts.iter().map(|(n, v)| (*n, v.len())).collect::<Vec<_>>()),
                        ));
                    }
                    // C02: lossless re-encoding
                    let expected = refparse::expected_reencode(bytes, f);
                    match guard(|| p.to_bytes_unlimited()) {
                        Err(msg) => viol.push(
                            Violation::new("C02", "reencode-fails", format!("re-encoding an accepted datagram panicked: {} on {}", msg, short(bytes)))
                                .with_sig(&format!("panic@{}", panic_site(&msg))),
                        ),
                        Ok(Err(e)) => viol.push(Violation::new("C02", "reencode-fails", format!("re-encoding an accepted datagram failed: {:?} on {}", e, short(bytes)))),
                        Ok(Ok(out)) => {
                            if out != expected {
                                viol.push(Violation::new(
                                    "C02",
                                    "reencode",
                                    format!("accepted {} re-encodes to {} (expected {})", short(bytes), short(&out), short(&expected)),
                                ));
                            } else {
                                stats.hit("wire.reencode.ok");
                            }
                        }
                    }
                }
            }
            Some(Ok(p))
        }
    }
}

/// Encoded size of a message without its payload (and without the marker).
pub fn overhead_of(p: &Packet) -> usize {
    ref_encode(p).len() - p.payload.len() - if p.payload.is_empty() { 0 } else { 1 }
}

/// The message encoded by the reference encoder from the packet's fields
/// (the harness never depends on the crate's encoder for its own needs).
pub fn ref_encode(p: &Packet) -> Vec<u8> {
    let mut opts: Vec<(u32, Vec<u8>)> = Vec::new();
    for (n, vals) in p.options() {
        for v in vals {
            opts.push((*n as u32, v.clone()));
        }
    }
    let mtype = match p.header.get_type() {
        coap_lite::MessageType::Confirmable => 0,
        coap_lite::MessageType::NonConfirmable => 1,
        coap_lite::MessageType::Acknowledgement => 2,
        coap_lite::MessageType::Reset => 3,
    };
    refparse::encode(p.header.get_version(), mtype, u8::from(p.header.code), p.header.message_id, p.get_token(), &opts, &p.payload)
}

impl Server {
    pub fn new(cfg: ServerCfg) -> Server {
        let handler = BlockHandler::new(BlockHandlerConfig {
            max_total_message_size: cfg.budget,
            cache_expiry_duration: Duration::from_nanos(cfg.expiry_ns),
        });
        Server { cfg, handler, app: App::new(), log: Vec::new(), violations: Vec::new(), last_b2_size: BTreeMap::new(), last_b2_toklen: BTreeMap::new(), dead: false, held_log: Vec::new(), tick: 0 }
    }

    #[cfg(feature = "hooks")]
    pub fn snapshot(&self) -> Vec<coap_lite::block_handler::VerifEntry<Ep>> {
        self.handler.verif_snapshot()
    }

    /// Hook snapshot of everything physically held, including entries that
    /// are expired but not yet reclaimed: the (simulator-owned) clock is
    /// rewound to 0 for the duration of the read-only snapshot.
    #[cfg(feature = "hooks")]
    pub fn snapshot_held(&self) -> Vec<coap_lite::block_handler::VerifEntry<Ep>> {
        let now = sn_fake_clock::FakeClock::get_ns();
        sn_fake_clock::FakeClock::set_ns(0);
        let s = self.handler.verif_snapshot();
        sn_fake_clock::FakeClock::set_ns(now);
        s
    }

    #[cfg(feature = "hooks")]
    fn upload_state(&self, from: Ep, key: &Key) -> Option<(usize, u64)> {
        // the handler's key uses lossy strings; compare on those
        let path: Option<Vec<String>> = key.1.iter().map(|s| String::from_utf8(s.clone()).ok()).collect();
        let path = path.unwrap_or_default();
        for e in self.handler.verif_snapshot() {
            if e.requester == Some(from) && e.path == path && e.request_type_ord == method_ord(key.0) {
                return e.upload_len.map(|l| (l, e.upload_hash.unwrap_or(0)));
            }
        }
        None
    }

    /// Processes one delivered datagram; returns the reply bytes, if any.
    pub fn on_datagram(&mut self, time: u64, from: Ep, tag: Tag, bytes: &[u8], corrupted: bool, net_dup: bool, stats: &mut Stats, trace: &mut Trace, shapes: &mut Vec<u64>) -> Option<Vec<u8>> {
        match self.begin(time, from, tag, bytes, corrupted, net_dup, stats, trace, shapes) {
            Step::Done(r) => r,
            Step::NeedsApp(p) => self.finish(*p, time, stats, trace),
        }
    }

    fn push(&mut self, mut arr: Arrival) {
        arr.seq = self.log.len();
        self.log.push(arr);
    }

    /// First phase: parse, from_packet, intercept_request.  If the request
    /// has to go to the application the caller decides when (split-phase:
    /// the application takes simulated time and other exchanges are
    /// processed in between).
    pub fn begin(&mut self, time: u64, from: Ep, tag: Tag, bytes: &[u8], corrupted: bool, net_dup: bool, stats: &mut Stats, trace: &mut Trace, shapes: &mut Vec<u64>) -> Step {
        let seq = self.log.len();
        trace.ev(1, from as u64, bytes);
        let mut arr = Arrival {
            seq,
            time,
            time_done: time,
            tick_begin: 0,
            tick_done: 0,
            from,
            tag,
            corrupted,
            net_dup,
            parsed: false,
            is_request: false,
            mtype: 0,
            code: 0,
            mid: 0,
            token: vec![],
            key: None,
            block1: None,
            block2: None,
            payload: vec![],
            req_overhead: 0,
            ireq: None,
            app: None,
            resp_overhead: None,
            iresp: None,
            reply: None,
            bytes_len: bytes.len(),
        };
        self.tick += 1;
        arr.tick_begin = self.tick;
        arr.tick_done = self.tick;
        if self.dead {
            self.push(arr);
            return Step::Done(None);
        }
        // ---- parse ----------------------------------------------------
        // The C02 / C03 oracle runs at every parse point of every family.
        let parsed = match check_parse(bytes, stats, &mut self.violations, shapes) {
            None => {
                self.dead = true;
                self.push(arr);
                return Step::Done(None);
            }
            Some(r) => r,
        };
        // ground truth of what was delivered: the reference parser's view
        let rf = refparse::accept(bytes);
        let packet = match parsed {
            Err(()) => {
                stats.hit("srv.rejected-datagram");
                trace.line(|| format!("t={} srv: datagram from ep{} rejected by from_bytes: {}", time, from, short(bytes)));
                self.push(arr);
                return Step::Done(None);
            }
            Ok(p) => p,
        };
        arr.parsed = true;
        let clamp = |b: Option<(u32, bool, u8)>| b.map(|(n, m, s)| (n.min(u16::MAX as u32) as u16, m, s));
        let (version, req_type, req_token, req_mid) = match &rf {
            Some(f) => {
                arr.mtype = f.mtype();
                arr.code = f.code;
                arr.mid = f.mid;
                arr.token = f.token.clone();
                // the crate reads block values of at most two bytes
                arr.block1 = clamp(f.first_opt(27).filter(|v| v.len() <= 2).and_then(|v| refparse::block_decode(v)));
                arr.block2 = clamp(f.first_opt(23).filter(|v| v.len() <= 2).and_then(|v| refparse::block_decode(v)));
                arr.payload = f.payload.clone();
                arr.req_overhead = bytes.len() - f.payload.len() - f.marker_pos.is_some() as usize;
                let t = match f.mtype() {
                    0 => MessageType::Confirmable,
                    1 => MessageType::NonConfirmable,
                    2 => MessageType::Acknowledgement,
                    _ => MessageType::Reset,
                };
                (f.version(), t, f.token.clone(), f.mid)
            }
            None => {
                // accepted although the grammar forbids it (already reported
                // as C03/accepted-malformed): fall back to the crate's view
                arr.mtype = mtype_num(packet.header.get_type());
                arr.code = u8::from(packet.header.code);
                arr.mid = packet.header.message_id;
                arr.token = packet.get_token().to_vec();
                arr.block1 = block_of(&packet, CoapOption::Block1);
                arr.block2 = block_of(&packet, CoapOption::Block2);
                arr.payload = packet.payload.clone();
                arr.req_overhead = overhead_of(&packet);
                (packet.header.get_version(), packet.header.get_type(), packet.get_token().to_vec(), packet.header.message_id)
            }
        };

        // ---- from_packet: C07 ----------------------------------------
        let mut req = CoapRequest::from_packet(packet, from);
        stats.hit("c07.from_packet");
        self.check_c07_prepared(&req, req_type, req_mid, &req_token, version, stats);
        self.check_c07_error_shapes(&req, stats);

        let is_request_code = arr.code >= 1 && arr.code <= 31;
        let typed_ok = arr.mtype <= 1 || self.cfg.feed_all_types;
        if !is_request_code || !typed_ok {
            // not a request (empty message, response, reserved class): a
            // server ignores it
            stats.hit("srv.non-request");
            self.push(arr);
            return Step::Done(None);
        }
        arr.is_request = true;
        let key: Key = match &rf {
            Some(f) => (arr.code, f.opt_values(11)),
            None => (arr.code, raw_path(&req.message)),
        };
        arr.key = Some(key.clone());

        // ---- intercept_request ---------------------------------------
        #[cfg(feature = "hooks")]
        let before = if self.cfg.snapshots { Some(self.upload_state(from, &key)) } else { None };

        let handler = &mut self.handler;
        let r = guard(|| handler.intercept_request(&mut req));
        let mut pending_err: Option<HandlingError> = None;
        match r {
            Err(msg) => {
                arr.ireq = Some(HOut::Panic);
                self.violations.push(
                    Violation::new("C11", "panic", format!("intercept_request panicked: {} (budget {}, request {})", msg, self.cfg.budget, short(bytes)))
                        .with_sig(&format!("panic@{}", panic_site(&msg))),
                );
                trace.line(|| format!("t={} srv: intercept_request PANIC {}", time, msg));
                self.dead = true;
                self.push(arr);
                return Step::Done(None);
            }
            Ok(Ok(true)) => arr.ireq = Some(HOut::Handled),
            Ok(Ok(false)) => arr.ireq = Some(HOut::Pass),
            Ok(Err(e)) => {
                arr.ireq = Some(HOut::Err(e.code.map(|c| u8::from(MessageClass::Response(c)))));
                pending_err = Some(e);
            }
        }

        #[cfg(feature = "hooks")]
        if let Some(before) = before {
            let after = self.upload_state(from, &key);
            self.check_c11_growth(&arr, before, after, pending_err.is_some(), stats);
        }

        let p = Box::new(Pending { arr, req, pending_err, req_mid, req_token, key, bytes: bytes.to_vec(), from, tag, corrupted, net_dup, fields: rf });
        if p.arr.ireq == Some(HOut::Pass) {
            Step::NeedsApp(p)
        } else {
            Step::Done(self.finish(*p, time, stats, trace))
        }
    }

    /// Second phase: application, intercept_response, error rendering,
    /// serialisation of the reply.
    pub fn finish(&mut self, p: Pending, time: u64, stats: &mut Stats, trace: &mut Trace) -> Option<Vec<u8>> {
        let Pending { mut arr, mut req, mut pending_err, req_mid, req_token, key, bytes, from, tag, corrupted, net_dup, fields } = p;
        let bytes = &bytes[..];
        let seq = self.log.len();
        arr.time_done = time;
        self.tick += 1;
        arr.tick_done = self.tick;
        // ---- application + intercept_response ------------------------
        if arr.ireq == Some(HOut::Pass) {
            let call = self.app.handle(&mut req);
            arr.app = Some(call);
            if let Some(r) = req.response.as_ref() {
                arr.resp_overhead = Some(overhead_of(&r.message));
            }
            let handler = &mut self.handler;
            let r = guard(|| handler.intercept_response(&mut req));
            match r {
                Err(msg) => {
                    arr.iresp = Some(HOut::Panic);
                    self.violations.push(
                        Violation::new("C11", "panic", format!("intercept_response panicked: {} (budget {}, request {})", msg, self.cfg.budget, short(bytes)))
                            .with_sig(&format!("panic@{}", panic_site(&msg))),
                    );
                    trace.line(|| format!("t={} srv: intercept_response PANIC {}", time, msg));
                    self.dead = true;
                    self.push(arr);
                    return None;
                }
                Ok(Ok(true)) => arr.iresp = Some(HOut::Handled),
                Ok(Ok(false)) => arr.iresp = Some(HOut::Pass),
                Ok(Err(e)) => {
                    arr.iresp = Some(HOut::Err(e.code.map(|c| u8::from(MessageClass::Response(c)))));
                    pending_err = Some(e);
                }
            }
        }

        #[cfg(feature = "hooks")]
        if self.cfg.record_held && (self.cfg.held_every <= 1 || from == self.cfg.held_always_from || seq as u32 % self.cfg.held_every == 0) {
            let held = self.snapshot_held().into_iter().map(|e| (e.requester.unwrap_or(0), e.request_type_ord, e.path)).collect();
            self.held_log.push((seq, held));
        }

        // ---- error rendering: C07 / C11 ------------------------------
        if let Some(e) = pending_err {
            stats.hit("srv.handling-error");
            let before = req.response.clone();
            let e2 = e.clone();
            let had_code = e.code;
            let ret = match guard(|| req.apply_from_error(e)) {
                Ok(b) => b,
                Err(msg) => {
                    self.violations.push(Violation::new("C07", "error-result", format!("apply_from_error panicked: {}", msg)));
                    self.dead = true;
                    self.push(arr);
                    return None;
                }
            };
            self.check_error_rendering(&before, &req, &e2, ret, had_code.is_some(), stats);
        }

        // ---- serialise the reply -------------------------------------
        let reply = match req.response.as_ref() {
            None => None,
            Some(r) => match guard(|| r.message.to_bytes_unlimited()) {
                Ok(Ok(b)) => Some(b),
                Ok(Err(_)) => None,
                Err(msg) => {
                    self.violations.push(Violation::new("C11", "panic", format!("encoding the reply panicked: {}", msg)).with_sig(&format!("panic@{}", panic_site(&msg))));
                    None
                }
            },
        };
        if let (Some(rb), Some(r)) = (reply.as_ref(), req.response.as_ref()) {
            // C12/reply-ids: every reply carries the ids of the request
            // being answered
            stats.hit("c12.reply-ids.checked");
            // decoded from the bytes that leave the server, by the reference parser
            let (out_mid, out_token) = match refparse::accept(rb) {
                Some(f) => (f.mid, f.token),
                None => (r.message.header.message_id, r.message.get_token().to_vec()),
            };
            if out_mid != req_mid || out_token != req_token {
                self.violations.push(Violation::new(
                    "C12",
                    "reply-ids",
                    format!(
                        "reply to mid={} token={} carries mid={} token={}",
                        req_mid,
                        crate::json::hex(&req_token),
                        out_mid,
                        crate::json::hex(&out_token)
                    ),
                ));
            }
            self.check_c10(&arr, &req, fields.as_ref(), rb, from, &key, stats);
            trace.ev(2, from as u64, rb);
        }
        trace.line(|| {
            format!(
                "t={} srv#{} <- ep{} [{:?} c{} l{} x{} e{} cp{}{}{}] code={}.{:02} mid={} b1={:?} b2={:?} pay={} : ireq={:?} app={} iresp={:?} -> {}",
                time,
                seq,
                from,
                tag.kind,
                tag.client,
                tag.lane,
                tag.transfer,
                tag.exch,
                tag.copy,
                if corrupted { " CORRUPTED" } else { "" },
                if net_dup { " NETDUP" } else { "" },
                arr.code >> 5,
                arr.code & 31,
                arr.mid,
                arr.block1,
                arr.block2,
                arr.payload.len(),
                arr.ireq,
                arr.app.as_ref().map(|a| format!("v{} in={} out={}", a.version, a.body_in.len(), a.body_out_len)).unwrap_or_else(|| "-".into()),
                arr.iresp,
                reply.as_ref().map(|b| describe_reply(b)).unwrap_or_else(|| "no reply".into())
            )
        });
        arr.reply = reply.clone();
        self.push(arr);
        reply
    }

    fn check_c07_prepared(&mut self, req: &CoapRequest<Ep>, t: MessageType, mid: u16, token: &[u8], version: u8, stats: &mut Stats) {
        let _ = version;
        let should = matches!(t, MessageType::Confirmable | MessageType::NonConfirmable);
        match (&req.response, should) {
            (None, false) => {
                stats.hit("c07.no-response-for-ack-rst");
            }
            (None, true) => self.violations.push(Violation::new("C07", "prepared-iff", format!("no response prepared for a {:?} request", t))),
            (Some(_), false) => self.violations.push(Violation::new("C07", "prepared-iff", format!("response prepared for a {:?} message", t))),
            (Some(r), true) => {
                let m = &r.message;
                let want_type = if t == MessageType::Confirmable { MessageType::Acknowledgement } else { MessageType::NonConfirmable };
                if m.header.get_type() != want_type {
                    self.violations.push(Violation::new("C07", "type", format!("{:?} request answered with {:?}", t, m.header.get_type())));
                }
                if m.header.get_version() != 1 {
                    self.violations.push(Violation::new("C07", "version", format!("prepared response has version {}", m.header.get_version())));
                }
                if m.header.message_id != mid {
                    self.violations.push(Violation::new("C07", "mid", format!("request mid {} -> response mid {}", mid, m.header.message_id)));
                }
                if m.get_token() != token {
                    self.violations.push(Violation::new("C07", "token", format!("request token {} -> response token {}", crate::json::hex(token), crate::json::hex(m.get_token()))));
                }
                if u8::from(m.header.code) != 0x45 {
                    self.violations.push(Violation::new("C07", "default-code", format!("prepared response code {:#x}", u8::from(m.header.code))));
                }
                // starts clean: encodes to exactly header + token
                let enc = ref_encode(m);
                if !m.payload.is_empty() || enc.len() != 4 + token.len() {
                    self.violations.push(Violation::new("C07", "clean", format!("prepared response is not empty: encodes to {} bytes, payload {}", enc.len(), m.payload.len())));
                }
            }
        }
    }

    /// C07 quantifies over all HandlingError shapes: apply a few synthetic
    /// ones to a clone of the freshly prepared request (which ones is a
    /// function of the message id, so no choice is drawn).
    fn check_c07_error_shapes(&mut self, req: &CoapRequest<Ep>, stats: &mut Stats) {
        let mid = req.message.header.message_id as usize;
        let shapes: [fn() -> HandlingError; 19] = [
            || HandlingError::with_code(ResponseType::BadOption, "bad option"),
            || HandlingError::with_code(ResponseType::Unauthorized, "no"),
            || HandlingError::with_code(ResponseType::Forbidden, "forbidden"),
            || HandlingError::with_code(ResponseType::NotAcceptable, "n/a"),
            || HandlingError::with_code(ResponseType::PreconditionFailed, "precondition"),
            || HandlingError::with_code(ResponseType::UnsupportedContentFormat, "format"),
            || HandlingError::with_code(ResponseType::NotImplemented, "later"),
            || HandlingError::with_code(ResponseType::GatewayTimeout, "timeout"),
            // codes that are not errors are codes all the same
            || HandlingError::with_code(ResponseType::Content, "not an error"),
            || HandlingError::with_code(ResponseType::Created, ""),
            || HandlingError::with_code(ResponseType::Continue, "go on"),
            || HandlingError::with_code(ResponseType::UnKnown, "?"),
            HandlingError::not_handled,
            HandlingError::not_found,
            || HandlingError::bad_request("bad"),
            || HandlingError::internal("boom"),
            HandlingError::method_not_supported,
            || HandlingError::with_code(ResponseType::ServiceUnavailable, ""),
            // a diagnostic longer than any packet size limit
            || HandlingError::internal("x".repeat(1400)),
        ];
        for k in 0..2 {
            let e = shapes[(mid + k * 3) % shapes.len()]();
            let mut r = req.clone();
            // a reply that already carries something, as a handler may have set
            if mid % 4 == 1 {
                if let Some(resp) = r.response.as_mut() {
                    resp.message.add_option(CoapOption::ETag, vec![1, 2, 3]);
                    resp.message.payload = b"partial".to_vec();
                }
            }
            // a separate response: the handler gave the reply a message id
            // and type of its own before the error came up (RFC 7252 5.2.2)
            if mid % 8 == 3 {
                if let Some(resp) = r.response.as_mut() {
                    resp.message.header.message_id = resp.message.header.message_id.wrapping_add(0x5555);
                    resp.message.header.set_type(coap_lite::MessageType::Confirmable);
                }
            }
            // the reply was already taken out and sent
            if mid % 8 == 6 {
                r.response = None;
            }
            // what is in the reply's payload before the call must not leak
            // into the error reply: with two different earlier payloads the
            // results are either both untouched or equal
            if mid % 4 == 1 && r.response.is_some() {
                let mut ra = r.clone();
                let mut rb = r.clone();
                let pa = b"partial".to_vec();
                let pb = vec![b'Z'; 40];
                ra.response.as_mut().unwrap().message.payload = pa.clone();
                rb.response.as_mut().unwrap().message.payload = pb.clone();
                let (ea, eb) = (e.clone(), e.clone());
                if let (Ok(_), Ok(_)) = (guard(|| ra.apply_from_error(ea)), guard(|| rb.apply_from_error(eb))) {
                    if let (Some(xa), Some(xb)) = (ra.response.as_ref(), rb.response.as_ref()) {
                        let (xa, xb) = (&xa.message.payload, &xb.message.payload);
                        let kept = *xa == pa && *xb == pb;
                        if !kept && xa != xb {
                            self.violations.push(Violation::new("C07", "error-preserves", format!("the payload the reply had before apply_from_error shows in the error reply: {:?} after \"partial\", {:?} after 40 x 'Z'", String::from_utf8_lossy(xa), String::from_utf8_lossy(xb))).with_sig("stale-payload"));
                        }
                    }
                }
            }
            let before = r.response.clone();
            let e2 = e.clone();
            let had_code = e.code.is_some();
            match guard(|| r.apply_from_error(e)) {
                Ok(ret) => {
                    // a code-less error cannot be rendered; that is not a C11
                    // matter here (the handler did not produce it)
                    let n0 = self.violations.len();
                    self.check_error_rendering(&before, &r, &e2, ret, had_code, stats);
                    let added = self.violations.split_off(n0);
                    self.violations.extend(added.into_iter().filter(|v| v.prop != "C11"));
                    stats.hit("c07.error-shapes.checked");
                    // the same error once more on the same request: the reply
                    // is still there, so it is applied (and reported) again
                    let before2 = r.response.clone();
                    let e3 = e2.clone();
                    if let Ok(ret2) = guard(|| r.apply_from_error(e3)) {
                        let n1 = self.violations.len();
                        self.check_error_rendering(&before2, &r, &e2, ret2, had_code, stats);
                        let added = self.violations.split_off(n1);
                        self.violations.extend(added.into_iter().filter(|v| v.prop != "C11"));
                    }
                }
                Err(msg) => self.violations.push(Violation::new("C07", "error-result", format!("apply_from_error panicked: {}", msg))),
            }
        }
    }

    fn check_error_rendering(&mut self, before: &Option<coap_lite::CoapResponse>, req: &CoapRequest<Ep>, e: &HandlingError, ret: bool, had_code: bool, stats: &mut Stats) {
        stats.hit("c07.apply_from_error");
        match (before, had_code) {
            (Some(b), true) => {
                let a = req.response.as_ref();
                let Some(a) = a else {
                    self.violations.push(Violation::new("C07", "error-preserves", "response vanished in apply_from_error".into()));
                    return;
                };
                // `ResponseType::UnKnown` is a placeholder without a wire
                // value: whether it counts as "a code to apply" is left open
                let placeholder = e.code == Some(ResponseType::UnKnown);
                let err_class = e.code.map_or(false, |c| matches!(u8::from(MessageClass::Response(c)) >> 5, 4 | 5));
                if !ret && !placeholder {
                    self.violations.push(Violation::new("C07", "error-result", "apply_from_error returned false although a response and a code exist".into()));
                    self.violations.push(Violation::new("C11", "renderable", format!("handling error {:?} could not be rendered", e.code)));
                }
                let (bm, am) = (&b.message, &a.message);
                if bm.header.get_type() != am.header.get_type()
                    || bm.header.get_version() != am.header.get_version()
                    || bm.header.message_id != am.header.message_id
                    || bm.get_token() != am.get_token()
                {
                    self.violations.push(Violation::new("C07", "error-preserves", "apply_from_error changed a correlation field".into()));
                }
                let code = u8::from(am.header.code);
                // the reply takes the error's code; what a code that is not
                // an error code (2.xx, the placeholder) turns into is not
                // stated
                if err_class && Some(am.header.code) != e.code.map(MessageClass::Response) {
                    self.violations.push(Violation::new("C07", "error-result", format!("code after apply_from_error is {:#x}, error carried {:?}", code, e.code)));
                }
                // (the wording of the diagnostic payload is not part of the
                // property: only that nothing but code, payload and
                // content-format changes)
                // only code, payload and content-format may differ
                let strip = |p: &Packet| -> Vec<(u32, Vec<u8>)> { flat_opts(p).into_iter().filter(|(n, _)| *n != 12).collect() };
                if strip(bm) != strip(am) {
                    self.violations.push(Violation::new("C07", "error-preserves", "apply_from_error changed options other than Content-Format".into()));
                }
                if code < 0x80 && err_class {
                    self.violations.push(Violation::new("C11", "renderable", format!("handling error rendered as non-error code {:#x}", code)));
                } else {
                    stats.hit("c11.rendered-error");
                }
            }
            (Some(_), false) => {
                // a response was prepared but the error has no code: cannot
                // be rendered as 4.xx/5.xx
                // no code to apply: failure is reported; whatever is done to
                // the reply meanwhile may touch only code, payload and
                // content format (the property does not say "left unchanged")
                if ret {
                    self.violations.push(Violation::new("C07", "error-result", "apply_from_error reported success although the error carries no code".into()));
                }
                match (before, req.response.as_ref()) {
                    (Some(b), Some(a)) => {
                        let (bm, am) = (&b.message, &a.message);
                        let strip = |p: &Packet| -> Vec<(u32, Vec<u8>)> { flat_opts(p).into_iter().filter(|(n, _)| *n != 12).collect() };
                        if bm.header.get_type() != am.header.get_type()
                            || bm.header.get_version() != am.header.get_version()
                            || bm.header.message_id != am.header.message_id
                            || bm.get_token() != am.get_token()
                            || strip(bm) != strip(am)
                        {
                            self.violations.push(Violation::new("C07", "error-preserves", "apply_from_error (error without a code) changed more than code, payload and content format".into()));
                        }
                    }
                    _ => self.violations.push(Violation::new("C07", "error-preserves", "the prepared response vanished in apply_from_error (error without a code)".into())),
                }
                self.violations.push(Violation::new("C11", "renderable", "handler returned an error without a code although a response was prepared".into()));
            }
            (None, _) => {
                stats.hit("c11.error-without-response");
                if ret || req.response.is_some() {
                    self.violations.push(Violation::new("C07", "error-result", "apply_from_error reported success without a response".into()));
                }
            }
        }
    }

    #[cfg(feature = "hooks")]
    fn check_c11_growth(&mut self, arr: &Arrival, before: Option<(usize, u64)>, after: Option<(usize, u64)>, errored: bool, stats: &mut Stats) {
        let b = before.map(|x| x.0).unwrap_or(0);
        let a = after.map(|x| x.0).unwrap_or(0);
        stats.hit("c11.growth.checked");
        if a > b {
            let growth = a - b;
            if growth > 16 * 1024 + arr.payload.len() {
                self.violations.push(Violation::new(
                    "C11",
                    "growth",
                    format!("one request (payload {}) grew the upload buffer from {} to {} bytes", arr.payload.len(), b, a),
                ));
            }
            if growth > 8 * 1024 {
                stats.hit("probe.c11.jump-over-8k-accepted");
            }
        }
        // a block whose offset needs a jump of more than 16 KiB beyond what is
        // buffered is rejected: if it was not (no error), the buffered data
        // must at least be what it was (a handler may ignore such an option)
        if !errored {
            if let Some((n, _m, s)) = arr.block1 {
                let off = n as usize * szx_size(s);
                if off > b && off - b > 16 * 1024 && before != after && a > 0 {
                    self.violations.push(Violation::new("C11", "jump-rejected", format!("Block1 num {} szx {} (offset {}) needs a jump of {} bytes beyond the {} buffered and was accepted: buffer {:?} -> {:?}", n, s, off, off - b, b, before.map(|x| x.0), after.map(|x| x.0))));
                }
            }
        }
        // a block refused for needing too large a jump leaves the buffer
        // byte-identical.  "Refused": answered with an error that carries a
        // code; a message the handler cannot answer at all (no reply was
        // prepared for its type: the code-less not-handled error) is not a
        // refusal of the block, whatever was done with its data before
        if errored && matches!(arr.ireq, Some(HOut::Err(Some(_)))) {
            if let Some((n, _m, s)) = arr.block1 {
                let end = n as usize * szx_size(s) + szx_size(s);
                if end > b && end - b > 16 * 1024 {
                    stats.hit("probe.c11.jump-rejected");
                    // the handler creates an empty buffer before splicing:
                    // None -> Some(empty) is "unchanged" (no data held)
                    let same = match (before, after) {
                        (None, None) => true,
                        // no data held either way
                        (None, Some((0, _))) | (Some((0, _)), None) => true,
                        (Some(x), Some(y)) => x == y,
                        _ => false,
                    };
                    if !same {
                        self.violations.push(Violation::new("C11", "reject-unchanged", format!("rejected block changed the buffer: {:?} -> {:?}", before, after)));
                    }
                }
            }
        }
    }

    /// C10 on every handler-produced reply whose own premise holds.
    fn check_c10(&mut self, arr: &Arrival, req: &CoapRequest<Ep>, fields: Option<&refparse::Fields>, reply: &[u8], from: Ep, key: &Key, stats: &mut Stats) {
        let m = self.cfg.budget;
        let Some(resp) = req.response.as_ref() else { return };
        let rcode = u8::from(resp.message.header.code);
        let r_b1 = block_of(&resp.message, CoapOption::Block1);
        let r_b2 = block_of(&resp.message, CoapOption::Block2);
        let errored = matches!(arr.ireq, Some(HOut::Err(_))) || matches!(arr.iresp, Some(HOut::Err(_)));
        if errored {
            return;
        }

        let app_own_b2 = arr.app.as_ref().map_or(false, |_| {
            // the application set its own Block2 iff the handler left it
            // alone; tracked through the resource spec
            self.app.resources.get(&key.1).map_or(false, |s| s.own_block2.is_some())
        });

        // --- upload acknowledgements (2.31, final ack, 4.13) -----------
        // A block served from the cache repeats the cached response's options
        // (possibly an old Block1 echo): that is not an acknowledgement the
        // handler chose for this request.
        let is_b1_ack = arr.block1.is_some() && (arr.app.is_some() || (arr.ireq == Some(HOut::Handled) && rcode == 0x5F && r_b2.is_none()))
            || (arr.block1.is_none() && arr.ireq == Some(HOut::Handled) && rcode == 0x8D);
        if let (Some((rn, _rm, rs)), true) = (r_b1, is_b1_ack) {
            let in_premise = m <= 1280 && m >= arr.req_overhead + 28;
            if in_premise {
                stats.hit("c10.b1ack.in-premise");
                if m == arr.req_overhead + 28 {
                    stats.hit("probe.c10.b1.budget-exactly-overhead+28");
                }
                let size = szx_size(rs);
                if rs > 6 {
                    self.violations.push(Violation::new("C10", "pow2", format!("Block1 ack uses szx {} (size {})", rs, size)));
                }
                if let Some((cn, _cm, cs)) = arr.block1 {
                    let csize = szx_size(cs);
                    if size > csize {
                        self.violations.push(Violation::new("C10", "le-client", format!("Block1 ack size {} > client's {}", size, csize)));
                    }
                    if cs <= 6 && csize + arr.req_overhead + 32 <= m && size != csize {
                        self.violations.push(Violation::new("C10", "exact", format!("client size {} fits budget {} (overhead {}) with 32 to spare but {} was chosen", csize, m, arr.req_overhead, size)));
                    }
                    if size < csize {
                        stats.hit("probe.c10.server-reduced-upload-size");
                    }
                    // the client's next upload block at the acknowledged size
                    if rcode == 0x5F && rs <= 6 {
                        let next_num = ((cn as usize + 1) * csize) / size;
                        if let (true, Some(f)) = (next_num <= 0xFFF, fields) {
                            // the client's next block: the same request with
                            // the next Block1 value and a full block
                            let mut opts: Vec<(u32, Vec<u8>)> = f.opts.iter().filter(|(n, _)| *n != 27).cloned().collect();
                            opts.push((27, refparse::block_encode(next_num as u32, true, rs)));
                            let enc = refparse::encode(f.version(), f.mtype(), f.code, f.mid, &f.token, &opts, &vec![0x55; size]);
                            stats.hit("c10.b1ack.fits.checked");
                            if enc.len() > m {
                                self.violations.push(Violation::new("C10", "fits", format!("next upload block at acknowledged size {} encodes to {} > budget {}", size, enc.len(), m)));
                            }
                        }
                    }
                    let _ = rn;
                } else if rcode == 0x8D && rs <= 6 {
                    // 4.13 with a size hint: block 0 at that size must fit
                    if let Some(f) = fields {
                        let mut opts: Vec<(u32, Vec<u8>)> = f.opts.clone();
                        opts.push((27, refparse::block_encode(0, true, rs)));
                        let enc = refparse::encode(f.version(), f.mtype(), f.code, f.mid, &f.token, &opts, &vec![0x55; size]);
                        stats.hit("c10.413.fits.checked");
                        if enc.len() > m {
                            self.violations.push(Violation::new("C10", "fits", format!("upload block 0 at hinted size {} encodes to {} > budget {}", size, enc.len(), m)));
                        }
                    }
                }
            }
        }

        // --- responses ------------------------------------------------
        if app_own_b2 {
            return;
        }
        // the size the server used last on this key (recorded whatever the
        // budget: the premise below is about the client, not the budget)
        // keyed the way the handler keys its cache (unknown methods share one
        // key, a path with an undecodable segment is the empty path)
        let b2key: Key = (method_ord(key.0), if key.1.iter().all(|sg| std::str::from_utf8(sg).is_ok()) { key.1.clone() } else { vec![] });
        let last_before = self.last_b2_size.get(&(from, b2key.clone())).copied();
        if let (Some((_, _, s)), true) = (r_b2, arr.app.is_some()) {
            // a fresh response: the size the server chose itself
            self.last_b2_size.insert((from, b2key.clone()), szx_size(s));
            self.last_b2_toklen.insert((from, b2key.clone()), resp.message.get_token().len());
        }
        if arr.app.is_some() {
            // an exchange that stayed at the application for as long as the
            // cache expiry: what the handler remembered of the request (the
            // client's size wish) may be gone by the time the response comes
            // through.  C10 quantifies over budgets, overheads and client
            // sizes, not over an expiry shorter than the application's
            // processing time.  (The size the server used is recorded above
            // all the same: later requests are judged against it.)
            if arr.time_done.saturating_sub(arr.time) >= self.cfg.expiry_ns {
                stats.hit("c10.out-of-premise.expiry-inside-exchange");
                return;
            }
            // the application's reply went through intercept_response
            let Some(ov) = arr.resp_overhead else { return };
            let in_premise = m <= 1280 && m >= ov + 28;
            if !in_premise {
                return;
            }
            stats.hit("c10.resp.in-premise");
            if m == ov + 28 {
                stats.hit("probe.c10.budget-exactly-overhead+28");
            }
            match r_b2 {
                Some((_n, more, s)) => {
                    let size = szx_size(s);
                    if s > 6 {
                        self.violations.push(Violation::new("C10", "pow2", format!("fragmented response uses szx {}", s)));
                    }
                    if let Some((_cn, _cm, cs)) = arr.block2 {
                        let csize = szx_size(cs);
                        if size > csize {
                            self.violations.push(Violation::new("C10", "le-client", format!("Block2 size {} > client's {}", size, csize)));
                        }
                        if cs <= 6 && csize + ov + 32 <= m && size != csize {
                            self.violations.push(Violation::new("C10", "exact", format!("client size {} fits budget {} (overhead {}) with 32 to spare but {} was chosen", csize, m, ov, size)));
                        }
                        if size < csize {
                            stats.hit("probe.c10.server-reduced-download-size");
                        }
                    }
                    stats.hit("c10.resp.fits.checked");
                    if reply.len() > m {
                        self.violations.push(Violation::new("C10", "fits", format!("fragmented response encodes to {} > budget {} (overhead {}, block size {}, more {})", reply.len(), m, ov, size, more)));
                    }
                }
                None => {
                    stats.hit("c10.unfragmented.checked");
                    if reply.len() > m {
                        self.violations.push(Violation::new("C10", "unfragmented-fits", format!("unfragmented response encodes to {} > budget {} (overhead {})", reply.len(), m, ov)));
                    }
                }
            }
        } else if arr.ireq == Some(HOut::Handled) {
            if let Some((_n, _more, s)) = r_b2 {
                // follow-up block served from the cache.  Premise: the
                // client did not raise the size above the server's last.
                let size = szx_size(s);
                let last = last_before;
                let payload_len = resp.message.payload.len();
                let ov_upper = reply.len() - payload_len; // includes marker and Block2: conservative
                // a block can only come out of the cache of a key on which
                // the server has sent a block before; "never raised" is then
                // relative to that size (no earlier size: nothing to raise)
                let raised = match (arr.block2, last) {
                    (Some((_, _, cs)), Some(l)) => szx_size(cs) > l,
                    (Some(_), None) => false,
                    _ => true,
                };
                if !raised {
                    // a block at a size the client did not raise: also the
                    // reference for what follows
                    self.last_b2_size.insert((from, b2key.clone()), size);
                }
                // the size was chosen against the overhead of the first
                // response; a client that lengthens its token afterwards has
                // changed the overhead the choice was made for
                let longer_token = self.last_b2_toklen.get(&(from, b2key.clone())).map_or(false, |&l| resp.message.get_token().len() > l);
                if longer_token {
                    stats.hit("c10.cached.out-of-premise.longer-token");
                }
                if !raised && !longer_token && m <= 1280 && m >= ov_upper + 28 {
                    stats.hit("c10.cached.fits.checked");
                    if reply.len() > m {
                        self.violations.push(Violation::new("C10", "fits", format!("cached block encodes to {} > budget {}", reply.len(), m)));
                    }
                    if let Some((_, _, cs)) = arr.block2 {
                        if size > szx_size(cs) {
                            self.violations.push(Violation::new("C10", "le-client", format!("cached block size {} > client's {}", size, szx_size(cs))));
                        }
                    }
                }
            }
        }
    }
}

pub fn method_ord(code: u8) -> u8 {
    // RequestCacheKey stores u8::from(MessageClass::Request(method)); unknown
    // methods map to 0xFF
    if (1..=7).contains(&code) {
        code
    } else {
        0xFF
    }
}

pub fn describe_reply(b: &[u8]) -> String {
    match refparse::accept(b) {
        Some(p) => {
            let c = p.code;
            format!("reply {}.{:02} mid={} tok={} b1={:?} b2={:?} pay={} len={}", c >> 5, c & 31, p.mid, crate::json::hex(&p.token), p.block(27), p.block(23), p.payload.len(), b.len())
        }
        None => format!("reply (unparseable) len={}", b.len()),
    }
}
