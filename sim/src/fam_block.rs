//! Family `blockwise`: cooperative Block1 / Block2 transfers over a lossy,
//! duplicating, reordering network with client retransmission, abandoned
//! uploads and noise on other keys.  Decides C08, C09, C10 (and carries the
//! C07 / C12-reply-ids monitors).
use crate::choices::{Ch, Fnv};
use crate::common::*;
use crate::des::*;
use crate::gen::*;
use crate::json::J;
use crate::oracle_block::*;
use crate::server::*;
use crate::world::*;
use std::collections::BTreeMap;

pub fn gen_spec(ch: &mut Ch) -> WorldSpec {
    let pool = path_pool();
    // resources
    let nres = 1 + ch.below(3, "nres") as usize;
    let mut resources = BTreeMap::new();
    let mut paths = Vec::new();
    for _ in 0..nres {
        let p = pool[ch.below(pool.len() as u64, "res.path") as usize].clone();
        if !resources.contains_key(&p) {
            resources.insert(p.clone(), gen_resource(ch, 20000));
            paths.push(p);
        }
    }
    let faults = ch.below(10, "faulty-config") >= 4;
    let nclients = 1 + if thorough() { ch.weighted(&[30, 20, 15, 15, 10, 10], "nclients") } else { ch.weighted(&[50, 25, 15, 10], "nclients") };
    let mut clients = Vec::new();
    let mut focus: Option<(usize, usize)> = None; // (req overhead, resp overhead)
    for ci in 0..nclients {
        let nlanes = 1 + ch.weighted(&[80, 20], "nlanes");
        let mut lanes = Vec::new();
        for li in 0..nlanes {
            let nt = 1 + ch.below(if thorough() { 5 } else { 3 }, "ntransfers") as usize;
            let mut transfers: Vec<TransferSpec> = Vec::new();
            while transfers.len() < nt {
                // lanes of one client use different paths where possible, so
                // that they do not interleave on one key
                let pi = (ch.below(paths.len() as u64, "t.path") as usize + li) % paths.len();
                let path = if ch.chance(1, 20, "t.unknown-path") { vec![seg("nope")] } else { paths[pi].clone() };
                let res = resources.get(&path).cloned().unwrap_or_default();
                let token_len = ch.below(9, "t.toklen") as usize;
                let con = !ch.chance(3, 20, "t.non");
                let token_len = if con { token_len } else { token_len.max(2) };
                let extra = gen_req_opts(ch);
                let kind_sel = ch.weighted(&[40, 35, 15, 10], "t.kind");
                let mut t = default_transfer(1, path.clone(), TKind::Plain { body_id: 0, payload_len: 0 });
                t.token_len = token_len;
                t.token_vary = ch.chance(1, 6, "t.tokvary");
                t.b2_more = ch.chance(1, 10, "t.b2more");
                t.con = con;
                t.extra = extra;
                t.pre_gap_ns = ch.below(4, "t.pregap") * 50 * MS;
                match kind_sel {
                    0 => {
                        // mostly GET / FETCH; now and then a payload-less PATCH /
                        // iPATCH whose reply is block-wise (same key rules)
                        t.method = *ch.pick(&[1u8, 1, 1, 1, 5, 1, 1, 5, 6, 7], "t.dl.method");
                        let early = if ch.chance(2, 5, "t.early") { Some(ch.below(8, "t.early.szx") as u8) } else { None };
                        let reduce = if ch.chance(1, 4, "t.reduce") { Some((1 + ch.below(3, "t.reduce.after") as u32, ch.below(6, "t.reduce.szx") as u8)) } else { None };
                        t.kind = TKind::Download { early, reduce };
                        t.probe = match ch.weighted(&[40, 30, 30], "t.probe") {
                            0 => Probe::None,
                            1 => Probe::NoBlock2,
                            _ => Probe::Block2Zero(ch.below(8, "t.probe.szx") as u8),
                        };
                        if focus.is_none() || ch.chance(1, 3, "focus") {
                            focus = Some((request_overhead(&t, None, Some((15, false, 6))), response_overhead(token_len, &res.opts, false)));
                        }
                    }
                    1 | 2 => {
                        t.method = if ch.chance(1, 2, "t.post") { 2 } else { 3 };
                        // now and then a heavy upload: a body near the upper
                        // bound in large blocks, every block delivered three
                        // times, after an abandoned prefix of six blocks (the
                        // most data an in-premise client parks on one key)
                        let heavy = ch.chance(1, 12, "t.up.heavy");
                        let szx = if heavy { 5 + ch.below(2, "t.up.szx.heavy") as u8 } else { ch.below(7, "t.up.szx") as u8 };
                        let size = 16usize << szx;
                        // lengths around block multiples
                        let len = if heavy { 4000 + ch.below(1001, "t.up.len.heavy") as usize } else { match ch.weighted(&[50, 10, 40], "t.up.lenmode") {
                            0 => {
                                let k = ch.below(7, "t.up.k") as usize;
                                let d = ch.below(3, "t.up.d") as i64 - 1;
                                ((k * size) as i64 + d).max(0) as usize
                            }
                            1 => 0,
                            _ => ch.below(5001, "t.up.len") as usize,
                        } }
                        .min(5000);
                        let nblocks = (len.max(1) + size - 1) / size;
                        let mut dups = vec![0u8; nblocks];
                        if heavy {
                            for d in dups.iter_mut() {
                                *d = 2;
                            }
                        } else if ch.chance(2, 5, "t.up.dups") {
                            for d in dups.iter_mut() {
                                if ch.chance(1, 4, "t.up.dup") {
                                    *d = 1 + ch.below(2, "t.up.dupn") as u8;
                                }
                            }
                        }
                        // an earlier upload to the same resource, abandoned midway
                        if (heavy || ch.chance(3, 10, "t.up.abandoned-before")) && transfers.len() + 1 < nt + 1 {
                            let plen = if heavy { 6 } else { 1 + ch.below(7, "t.ab.blocks") as usize };
                            let pszx = if !heavy && ch.chance(1, 3, "t.ab.otherszx") { ch.below(7, "t.ab.szx") as u8 } else { szx };
                            let psize = 16usize << pszx;
                            let mut a = t.clone();
                            a.kind = TKind::Upload { body_id: ch.below(1 << 40, "t.ab.body"), len: (plen + 1) * psize, szx: pszx, dups: vec![], abandon_after: Some(plen as u32), adapt: false };
                            transfers.push(a);
                        }
                        t.kind = TKind::Upload { body_id: ch.below(1 << 40, "t.up.body") | if ch.chance(1, 2, "t.up.patterned") { BODY_PATTERNED } else { 0 }, len, szx, dups, abandon_after: None, adapt: ch.chance(1, 2, "t.up.adapt") };
                        if focus.is_none() || ch.chance(1, 3, "focus") {
                            let ro = request_overhead(&t, Some((200, true, szx)), None);
                            focus = Some((ro + size.saturating_sub(16), response_overhead(token_len, &res.opts, true)));
                        }
                    }
                    _ => {
                        t.method = *ch.pick(&[1u8, 2, 3, 4, 5], "t.plain.method");
                        let plen = if t.method == 1 || t.method == 4 { 0 } else { gen_len(ch, 1500) };
                        t.kind = TKind::Plain { body_id: ch.below(1 << 40, "t.plain.body"), payload_len: plen };
                    }
                }
                transfers.push(t);
            }
            lanes.push(LaneSpec { transfers, timeout_ms: 2000 + ch.below(1001, "lane.timeout") });
        }
        clients.push(ClientSpec { ep: 100 + ci as Ep, lanes, mid0: if ch.chance(1, 8, "c.mid0.wrap") { 65_500 + ch.below(36, "c.mid0") as u16 } else { ch.below(65536, "c.mid0") as u16 }, tok_seed: ch.below(1 << 48, "c.tok"), net: gen_net(ch, faults), via_proxy: false });
    }
    // noise clients on other keys
    if ch.chance(3, 10, "noise") {
        // a few requests on a handful of keys; now and then hundreds of
        // distinct keys (a capacity-bounded cache only shows then)
        let many = ch.chance(1, 12, "noise.many");
        let n = if many { 300 + ch.below(400, "noise.n.many") as usize } else { 1 + ch.below(40, "noise.n") as usize };
        let mut dgs = Vec::new();
        for i in 0..n {
            let p = vec![seg("noise"), format!("{}", if many { i } else { i % 7 }).into_bytes()];
            dgs.push(build_request(1, coap_lite::MessageType::NonConfirmable, i as u16, &[i as u8], &p, &[], None, None, &[]));
        }
        let mut t = default_transfer(1, vec![], TKind::Raw { datagrams: dgs, gap_ns: if many { (1 + ch.below(20, "noise.gap")) * MS / 10 } else { (1 + ch.below(20, "noise.gap")) * MS } });
        t.tag_kind = TagKind::Noise;
        clients.push(ClientSpec { ep: 900, lanes: vec![LaneSpec { transfers: vec![t], timeout_ms: 2000 }], mid0: 0, tok_seed: 1, net: NetCfg::clean(3), via_proxy: false });
    }
    let (fo_req, fo_resp) = focus.unwrap_or((20, 8));
    let ov = if ch.below(2, "budget.rel") == 0 { fo_req.max(fo_resp) } else { fo_resp };
    let budget = gen_budget(ch, ov);
    WorldSpec {
        // mostly far beyond any run; now and then a few seconds or a fraction
        // of a second (transfers whose own gaps reach the expiry are outside
        // the premises of C08 / C09)
        server: ServerCfg { budget, expiry_ns: match ch.weighted(&[60, 12, 12, 8, 8], "expiry") {
            0 => 1_000_000 * SEC,
            1 => (1000 + ch.below(4000, "expiry.ms")) * MS,
            2 => (700 + ch.below(1200, "expiry.ms")) * MS,
            3 => 120 * SEC,
            _ => (250 + ch.below(500, "expiry.ms")) * MS,
        }, check_wire: false, snapshots: false, feed_all_types: false, record_held: false, held_every: 1, held_always_from: 0 },
        resources,
        clients,
        max_events: if thorough() { 80_000 } else { 30_000 },
        // in a quarter of the runs the application takes simulated time and
        // exchanges on other keys are processed in between (split-phase)
        slow_app_pm: if ch.chance(1, 4, "slow-app") { 100 + ch.below(700, "slow-app.pm") } else { 0 },
    }
}

fn abstract_download(server: &Server, v: &TransferView, t: &TransferSpec) -> u64 {
    let mut h = Fnv::default();
    let a0 = &server.log[v.arrivals[0]];
    h.byte(1);
    h.u64(v.arrivals.len().min(12) as u64);
    if let Some(call) = &a0.app {
        let first_size = a0.reply.as_ref().and_then(|b| crate::refparse::accept(b)).and_then(|p| p.block(23)).map(|b| b.2);
        h.byte(first_size.map_or(9, |s| s));
        let size = first_size.map_or(16, szx_size);
        h.u64(match call.body_out_len % size {
            0 => 0,
            1 => 1,
            x if x == size - 1 => 2,
            _ => 3,
        });
        h.u64(((server.cfg.budget as i64 - a0.resp_overhead.unwrap_or(0) as i64 - 28) / 8).clamp(-1, 40) as u64);
        h.u64(call.opts_out.len() as u64);
    }
    if let TKind::Download { early, reduce } = &t.kind {
        h.byte(early.map_or(9, |s| s));
        h.byte(reduce.map_or(9, |r| r.1));
    }
    h.byte(a0.token.len() as u8);
    h.0
}

fn abstract_upload(server: &Server, v: &TransferView) -> u64 {
    let mut h = Fnv::default();
    h.byte(2);
    let mut last: Option<u16> = None;
    let mut n = 0;
    for &s in &v.arrivals {
        let a = &server.log[s];
        if let Some((num, more, sx)) = a.block1 {
            let dup = last == Some(num);
            last = Some(num);
            if n < 24 {
                h.byte(dup as u8);
                h.byte(more as u8);
                h.byte(sx);
            }
            n += 1;
        }
    }
    h.u64(n.min(40) as u64);
    h.byte(v.clean_before as u8);
    h.0
}

pub fn run(ch: &mut Ch, verbose: bool) -> Outcome {
    let spec = gen_spec(ch);
    run_spec(&spec, ch, verbose)
}

pub fn run_spec(spec: &WorldSpec, ch: &mut Ch, verbose: bool) -> Outcome {
    let mut r = run_world(spec, ch, verbose);
    let mut out = Outcome::new();
    out.faulty_cfg = spec.clients.iter().any(|c| c.net.faulty());
    let views = classify(&r.server, &r.lanes);
    let mut viol = std::mem::take(&mut r.violations);
    let mut stats = std::mem::take(&mut r.stats);
    let nclients_active = spec.clients.len();
    let faults_fired = stats.m.iter().filter(|(k, _)| k.starts_with("fault.")).map(|(_, v)| *v).sum::<u64>();
    for v in &views {
        let lane = r.lanes.iter().find(|l| l.ci == v.ci && l.li == v.li).unwrap();
        let t = &lane.spec.transfers[v.ti];
        stats.hit(match &v.shape {
            Shape::Ill => "shape.ill",
            Shape::UploadComplete { .. } => "shape.upload-complete",
            Shape::UploadPrefix => "shape.upload-prefix",
            Shape::Download { .. } => "shape.download",
            Shape::Plain => "shape.plain",
            Shape::Other => "shape.none",
        });
        if v.arrivals.is_empty() {
            continue;
        }
        let in09 = check_c09(&r.server, t, v, &mut stats, &mut viol);
        if in09 && (v.arrivals.len() >= 2) && (faults_fired > 0 || nclients_active >= 2 || !v.clean_before || matches!(t.kind, TKind::Upload { .. })) {
            out.nontrivial.push(abstract_upload(&r.server, v));
            // prior abandoned upload on the same key?
            if v.ti > 0 {
                if let TKind::Upload { abandon_after: Some(_), .. } = &lane.spec.transfers[v.ti - 1].kind {
                    if lane.spec.transfers[v.ti - 1].path == t.path && lane.spec.transfers[v.ti - 1].method == t.method {
                        stats.hit("probe.c09.after-abandoned-upload");
                        if let (TKind::Upload { len: l0, szx: s0, abandon_after: Some(j), .. }, TKind::Upload { len: l1, .. }) = (&lane.spec.transfers[v.ti - 1].kind, &t.kind) {
                            let _ = l0;
                            if (*j as usize) * (16usize << *s0) > *l1 {
                                stats.hit("probe.c09.abandoned-prefix-longer-than-new-body");
                            }
                        }
                    }
                }
            }
        }
        let in08 = check_c08(&r.server, lane, t, v, &mut stats, &mut viol);
        if in08 {
            out.distinct2.push(abstract_download(&r.server, v, t));
            if v.arrivals.len() >= 2 {
                out.nontrivial.push(abstract_download(&r.server, v, t));
            }
            if matches!(v.shape, Shape::UploadComplete { .. }) {
                stats.hit("probe.c08.block1-then-block2-on-one-key");
            }
        }
    }
    check_c09_too_large(&r.server, &mut stats, &mut viol);
    for l in &r.lanes {
        for res in &l.results {
            match res.status {
                TStatus::Abandoned => stats.hit("fault.client-crash"),
                TStatus::Failed("timeout") => stats.hit("client.gave-up-after-timeouts"),
                _ => {}
            }
        }
    }
    stats.add("fault.noise-request", r.server.log.iter().filter(|a| a.tag.kind == TagKind::Noise).count() as u64);
    out.violations = viol;
    out.hash = r.trace.h.0;
    out.sim_ns = r.sim_ns;
    out.trace = std::mem::take(&mut r.trace.lines);
    if verbose {
        out.sample = Some(sample_json(spec, &r));
    }
    stats.add("sim.events", r.server.log.len() as u64);
    out.stats = stats;
    out
}

pub fn sample_json(spec: &WorldSpec, r: &WorldResult) -> J {
    let mut clients = Vec::new();
    for c in &spec.clients {
        let mut lanes = Vec::new();
        for l in &c.lanes {
            let ts: Vec<J> = l
                .transfers
                .iter()
                .map(|t| {
                    J::s(format!(
                        "method={} path={:?} con={} toklen={} extra_opts={:?} kind={} probe={:?}",
                        t.method,
                        t.path.iter().map(|s| String::from_utf8_lossy(s).to_string()).collect::<Vec<_>>(),
                        t.con,
                        t.token_len,
                        t.extra.iter().map(|(n, v)| (*n, v.len())).collect::<Vec<_>>(),
                        match &t.kind {
                            TKind::Download { early, reduce } => format!("download(early={:?},reduce={:?})", early, reduce),
                            TKind::Upload { len, szx, dups, abandon_after, adapt, .. } => format!("upload(len={},szx={},dups={:?},abandon_after={:?},adapt={})", len, szx, dups, abandon_after, adapt),
                            TKind::Plain { payload_len, .. } => format!("plain(payload={})", payload_len),
                            TKind::Raw { datagrams, .. } => format!("raw({} datagrams)", datagrams.len()),
                        },
                        t.probe
                    ))
                })
                .collect();
            lanes.push(J::Arr(ts));
        }
        clients.push(J::obj().set("endpoint", J::u(c.ep as u64)).set("net", J::s(format!("{:?}", c.net))).set("lanes", J::Arr(lanes)));
    }
    J::obj()
        .set("budget", J::u(spec.server.budget as u64))
        .set("expiry_ns", J::u(spec.server.expiry_ns))
        .set("resources", J::Arr(spec.resources.iter().map(|(p, s)| J::s(format!("{:?}: lens={:?} opts={:?} up_reply_lens={:?}", p.iter().map(|s| String::from_utf8_lossy(s).to_string()).collect::<Vec<_>>(), s.lens, s.opts.iter().map(|(n, v)| (*n, v.len())).collect::<Vec<_>>(), s.up_reply_lens))).collect()))
        .set("clients", J::Arr(clients))
        .set("server_arrivals", J::u(r.server.log.len() as u64))
        .set("simulated_ms", J::u(r.sim_ns / MS))
}
