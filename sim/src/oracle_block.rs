//! Transfer-level oracles for C08 (Block2 download) and C09 (Block1 upload),
//! evaluated over the server's arrival log — the simulator's ground truth —
//! after a run.  A premise classifier working only on that ground truth
//! decides, per transfer, whether the property speaks about its history.
use crate::common::*;
use crate::des::Stats;
use crate::server::*;
use crate::world::*;
use crate::refparse::{self, Fields};
use std::collections::BTreeMap;

/// Option numbers (oracles decode replies with the reference parser, not
/// with the codec of the crate under test).
#[allow(non_snake_case)]
mod CoapOption {
    pub const Block1: u32 = 27;
    pub const Block2: u32 = 23;
}

#[derive(Clone, Debug, PartialEq)]
pub enum Shape {
    /// arrivals interleaved with another transfer, corrupted, reordered, ...
    Ill,
    /// in-order upload, every block >= 1 times consecutively, ended with the
    /// final block.  `first_final`: index (into the transfer's arrivals) of
    /// the first delivery of the final block
    UploadComplete { first_final: usize, followups: usize },
    /// in-order prefix of an upload (all blocks have the more flag)
    UploadPrefix,
    /// blocks 0,1,2,... requested once each in order (server view)
    Download { n: usize },
    /// one or more deliveries of a single request without block options
    Plain,
    Other,
}

pub struct TransferView {
    pub ci: usize,
    pub li: usize,
    pub ti: usize,
    pub ep: Ep,
    /// arrival indices of the main exchanges (tag.kind == Coop)
    pub arrivals: Vec<usize>,
    pub probes: Vec<usize>,
    pub key: Option<(Ep, Key)>,
    pub shape: Shape,
    /// its arrivals are contiguous in the per-key history
    pub contiguous: bool,
    /// every earlier transfer on the key was well shaped
    pub clean_before: bool,
    /// the probe directly follows the main arrivals in the per-key history
    pub probe_adjacent: bool,
    /// a fragmented response started earlier on this key had not been served
    /// to its final block when this transfer's first request arrived
    pub open_before: bool,
    /// between two of its own exchanges (or inside one, in split-phase) the
    /// key stayed idle for the configured expiry or longer: the handler may
    /// legitimately have dropped the transfer's state
    pub expired_within: bool,
}

fn reply_packet(a: &Arrival) -> Option<Fields> {
    a.reply.as_ref().and_then(|b| refparse::accept(b))
}

fn block_opt(p: &Fields, o: u32) -> Option<(u32, bool, u8)> {
    p.block(o)
}

/// Classifies every cooperative transfer of a run.
pub fn classify(server: &Server, lanes: &[Lane]) -> Vec<TransferView> {
    let log = &server.log;
    // per-key history of request arrivals
    let mut by_key: BTreeMap<(Ep, Key), Vec<usize>> = BTreeMap::new();
    for a in log.iter() {
        if a.is_request {
            if let Some(k) = &a.key {
                by_key.entry((a.from, k.clone())).or_default().push(a.seq);
            }
        }
    }
    // arrivals per (client, lane, transfer)
    let mut per_t: BTreeMap<(u16, u16, u16), (Vec<usize>, Vec<usize>)> = BTreeMap::new();
    for a in log.iter() {
        match a.tag.kind {
            TagKind::Coop => per_t.entry((a.tag.client, a.tag.lane, a.tag.transfer)).or_default().0.push(a.seq),
            TagKind::Probe => per_t.entry((a.tag.client, a.tag.lane, a.tag.transfer)).or_default().1.push(a.seq),
            _ => {}
        }
    }
    let mut views = Vec::new();
    for lane in lanes {
        for (ti, t) in lane.spec.transfers.iter().enumerate() {
            if t.tag_kind != TagKind::Coop {
                continue;
            }
            let (arrivals, probes) = per_t.get(&(lane.ci as u16, lane.li as u16, ti as u16)).cloned().unwrap_or_default();
            let mut v = TransferView {
                ci: lane.ci,
                li: lane.li,
                ti,
                ep: lane.ep,
                arrivals,
                probes,
                key: None,
                shape: Shape::Other,
                contiguous: false,
                clean_before: false,
                probe_adjacent: false,
                open_before: false,
                expired_within: false,
            };
            v.shape = shape_of(log, t, &v.arrivals);
            {
                let e = server.cfg.expiry_ns;
                let mut all: Vec<usize> = v.arrivals.iter().chain(v.probes.iter()).copied().collect();
                all.sort_unstable();
                let mut prev_done: Option<u64> = None;
                for &sq in &all {
                    let a = &log[sq];
                    if let Some(p) = prev_done {
                        if a.time.saturating_sub(p) >= e {
                            v.expired_within = true;
                        }
                    }
                    if a.time_done.saturating_sub(a.time) >= e {
                        v.expired_within = true;
                    }
                    prev_done = Some(a.time_done);
                }
            }
            if let Some(&first) = v.arrivals.first() {
                if let Some(k) = &log[first].key {
                    v.key = Some((lane.ep, k.clone()));
                }
            }
            views.push(v);
        }
    }
    // contiguity and cleanliness per key
    for (key, hist) in &by_key {
        // which view does each arrival belong to?
        let owner = |seq: usize| -> Option<usize> {
            let a = &log[seq];
            if a.corrupted || !matches!(a.tag.kind, TagKind::Coop | TagKind::Probe) {
                return None;
            }
            views.iter().position(|v| v.ci == a.tag.client as usize && v.li == a.tag.lane as usize && v.ti == a.tag.transfer as usize)
        };
        let owners: Vec<Option<usize>> = hist.iter().map(|&s| owner(s)).collect();
        // "unfinished transfer cached": every success reply with a Block2
        // option says whether more blocks remain to be fetched
        let mut open = false;
        let mut open_at = Vec::with_capacity(hist.len());
        for &sq in hist.iter() {
            open_at.push(open);
            let a = &log[sq];
            if let Some(p) = reply_packet(a) {
                // (whatever the code: the handler fragments and caches an
                // application's error reply like any other)
                {
                    if let Some((_, more, _)) = block_opt(&p, CoapOption::Block2) {
                        if a.app.is_some() {
                            // a fresh response: it starts a transfer (which
                            // replaces whatever was unfinished) only if blocks
                            // remain; a single-block reply leaves an older
                            // unfinished transfer where it was
                            if more {
                                open = true;
                            }
                        } else {
                            // a block of the transfer in progress
                            open = more;
                        }
                    }
                }
            }
        }
        let mut clean = true;
        let mut i = 0;
        while i < hist.len() {
            let o = owners[i];
            let mut j = i;
            while j < hist.len() && owners[j] == o {
                j += 1;
            }
            match o {
                None => {
                    clean = false;
                }
                Some(vi) => {
                    // all arrivals of this view on this key inside [i, j)?
                    let total = views[vi].arrivals.len() + views[vi].probes.len();
                    let here = j - i;
                    let same_key = views[vi].key.as_ref() == Some(key);
                    let contiguous = same_key && here == total;
                    // the probe, if any, must come last
                    let main_n = views[vi].arrivals.len();
                    let probe_last = (i..j).enumerate().all(|(off, idx)| (log[hist[idx]].tag.kind == TagKind::Probe) == (off >= main_n));
                    views[vi].contiguous = contiguous && probe_last;
                    views[vi].probe_adjacent = contiguous && probe_last && !views[vi].probes.is_empty();
                    views[vi].clean_before = clean;
                    views[vi].open_before = open_at[i];
                    let well = contiguous && probe_last && !matches!(views[vi].shape, Shape::Ill | Shape::Other);
                    // a transfer that is well shaped but incomplete leaves
                    // state behind only in ways the properties allow for
                    // (abandoned upload prefix); an incomplete download
                    // leaves an unfinished cached response: not clean
                    let leaves_clean = match &views[vi].shape {
                        Shape::UploadComplete { .. } | Shape::UploadPrefix | Shape::Plain => true,
                        Shape::Download { .. } => download_finished(log, &views[vi]),
                        _ => false,
                    };
                    // a probe whose reply is itself the first block of a
                    // fragmented response starts a transfer it never finishes
                    let probe_clean = views[vi].probes.iter().all(|&ps| match reply_packet(&log[ps]) {
                        None => false,
                        Some(p) => block_opt(&p, CoapOption::Block2).map_or(true, |b| !b.1),
                    });
                    if !(well && leaves_clean && probe_clean) {
                        clean = false;
                    }
                }
            }
            i = j;
        }
    }
    views
}

fn download_finished(log: &[Arrival], v: &TransferView) -> bool {
    match v.arrivals.last() {
        None => false,
        Some(&l) => match reply_packet(&log[l]) {
            None => false,
            Some(p) => match block_opt(&p, CoapOption::Block2) {
                None => true,
                Some((_, more, _)) => !more,
            },
        },
    }
}

fn shape_of(log: &[Arrival], t: &TransferSpec, arrivals: &[usize]) -> Shape {
    if arrivals.is_empty() {
        return Shape::Other;
    }
    for &s in arrivals {
        let a = &log[s];
        if a.corrupted || !a.parsed || !a.is_request {
            return Shape::Ill;
        }
    }
    match &t.kind {
        TKind::Upload { body_id, len, szx, .. } => upload_shape(log, arrivals, &gen_body(*body_id, *len), Some(*szx), 0),
        TKind::Plain { body_id, payload_len } => {
            // deliveries of the un-fragmented request first
            let body = gen_body(*body_id, *payload_len);
            let mut i = 0;
            while i < arrivals.len() {
                let a = &log[arrivals[i]];
                if a.block1.is_none() && a.block2.is_none() && a.payload == body {
                    i += 1;
                } else {
                    break;
                }
            }
            if i == 0 {
                return Shape::Ill;
            }
            if i == arrivals.len() {
                // possibly followed by Block2 follow-ups: handled below
                return Shape::Plain;
            }
            if log[arrivals[i]].block1.is_some() {
                // switched to block-wise after a 4.13
                return upload_shape(log, arrivals, &body, None, i);
            }
            // Block2 follow-ups of a large reply to a plain request
            download_followups(log, arrivals, i).map_or(Shape::Ill, |_| Shape::Plain)
        }
        TKind::Download { .. } => {
            let a0 = &log[arrivals[0]];
            if a0.block1.is_some() || !a0.payload.is_empty() {
                return Shape::Ill;
            }
            if let Some((n, _, _)) = a0.block2 {
                if n != 0 {
                    return Shape::Ill;
                }
            }
            match download_followups(log, arrivals, 1) {
                Some(n) => Shape::Download { n: n + 1 },
                None => Shape::Ill,
            }
        }
        TKind::Raw { .. } => Shape::Other,
    }
}

/// arrivals[from..] are Block2 requests for consecutive offsets, once each.
/// The download starts with the reply to arrivals[from-1]; the expected offset
/// is derived from the payloads of the replies actually sent.
fn download_followups(log: &[Arrival], arrivals: &[usize], from: usize) -> Option<usize> {
    if from == 0 {
        return None;
    }
    if from >= arrivals.len() {
        return Some(0);
    }
    let first = reply_packet(&log[arrivals[from - 1]])?;
    let mut have = first.payload.len();
    // a further request belongs to the transfer only while blocks remain
    let mut more = block_opt(&first, CoapOption::Block2).map_or(false, |b| b.1);
    for idx in from..arrivals.len() {
        if !more {
            return None;
        }
        let a = &log[arrivals[idx]];
        let (n, _m, s) = a.block2?;
        if a.block1.is_some() || !a.payload.is_empty() {
            return None;
        }
        if n as usize * szx_size(s) != have {
            return None;
        }
        if idx + 1 < arrivals.len() {
            let p = reply_packet(a)?;
            have += p.payload.len();
            more = block_opt(&p, CoapOption::Block2).map_or(false, |b| b.1);
        }
    }
    Some(arrivals.len() - from)
}

fn upload_shape(log: &[Arrival], arrivals: &[usize], body: &[u8], szx: Option<u8>, from: usize) -> Shape {
    let mut last_n: Option<usize> = None;
    let mut first_final = None;
    let mut szx = szx;
    let mut i = from;
    while i < arrivals.len() {
        let a = &log[arrivals[i]];
        let Some((n, more, s)) = a.block1 else { break };
        if a.block2.is_some() {
            return Shape::Ill;
        }
        match szx {
            None => szx = Some(s),
            Some(x) if x != s => return Shape::Ill,
            _ => {}
        }
        let size = szx_size(s);
        let n = n as usize;
        // only "same block again" or "next block"
        let ok = match last_n {
            None => n == 0,
            Some(l) => n == l || n == l + 1,
        };
        if !ok {
            return Shape::Ill;
        }
        last_n = Some(n);
        let off = n * size;
        let end = (off + size).min(body.len());
        if off > body.len() {
            return Shape::Ill;
        }
        let is_final = end >= body.len();
        if a.payload != body[off..end] || more == is_final {
            return Shape::Ill;
        }
        if first_final.is_some() && !is_final {
            return Shape::Ill;
        }
        if is_final && first_final.is_none() {
            first_final = Some(i);
        }
        i += 1;
    }
    match first_final {
        None => {
            if i == arrivals.len() {
                Shape::UploadPrefix
            } else {
                Shape::Ill
            }
        }
        Some(ff) => {
            // anything after the final-block deliveries must be Block2
            // follow-ups of a block-wise reply
            if i == arrivals.len() {
                Shape::UploadComplete { first_final: ff, followups: 0 }
            } else {
                match download_followups(log, arrivals, i) {
                    Some(n) => Shape::UploadComplete { first_final: ff, followups: n },
                    None => Shape::Ill,
                }
            }
        }
    }
}

/// C09 clauses for one well-shaped upload whose premise holds.
pub fn check_c09(server: &Server, t: &TransferSpec, v: &TransferView, stats: &mut Stats, out: &mut Vec<Violation>) -> bool {
    let log = &server.log;
    let m = server.cfg.budget;
    let (first_final, is_complete) = match &v.shape {
        Shape::UploadComplete { first_final, .. } => (*first_final, true),
        Shape::UploadPrefix => (usize::MAX, false),
        _ => return false,
    };
    if !v.contiguous || !v.clean_before {
        stats.hit("c09.out-of-premise.history");
        return false;
    }
    if v.expired_within {
        stats.hit("c09.out-of-premise.expiry-elapsed");
        return false;
    }
    // budget admits the client's block size for every block of the transfer
    let body = match &t.kind {
        TKind::Upload { body_id, len, .. } => gen_body(*body_id, *len),
        TKind::Plain { body_id, payload_len } => gen_body(*body_id, *payload_len),
        _ => return false,
    };
    let block_arrivals: Vec<usize> = v.arrivals.iter().copied().filter(|&s| log[s].block1.is_some()).collect();
    if block_arrivals.is_empty() {
        return false;
    }
    for &s in &block_arrivals {
        let a = &log[s];
        let size = szx_size(a.block1.unwrap().2);
        // "budgets that admit the client's block size": no upper bound
        if a.block1.unwrap().2 > 6 || m < a.req_overhead + 12 + size {
            stats.hit("c09.out-of-premise.budget");
            return false;
        }
    }
    stats.hit("c09.in-premise");
    if block_arrivals.len() > 1 && log[block_arrivals[0]].block1.unwrap().0 == log[block_arrivals[1]].block1.unwrap().0 {
        stats.hit("probe.c09.duplicate-of-first-block");
    }
    let mut app_calls_on_final = 0;
    for (idx, &s) in v.arrivals.iter().enumerate() {
        let a = &log[s];
        let Some((n, more, sx)) = a.block1 else { continue };
        let size = szx_size(sx);
        let rp = reply_packet(a);
        let what = format!("block {} (szx {}, more {}) of a {}-byte upload, budget {}", n, sx, more, body.len(), m);
        if more {
            // non-final block: 2.31, echo, not passed on
            match &rp {
                None => out.push(Violation::new("C09", "continue", format!("no reply to {}", what))),
                Some(p) => {
                    let code = p.code;
                    if code != 0x5F {
                        out.push(Violation::new("C09", "continue", format!("{} answered {}.{:02} instead of 2.31", what, code >> 5, code & 31)));
                    }
                    match block_opt(p, CoapOption::Block1) {
                        None => out.push(Violation::new("C09", "ack-num", format!("2.31 for {} carries no Block1 option", what))),
                        Some((rn, _rm, rs)) => {
                            if szx_size(rs) > size {
                                out.push(Violation::new("C09", "ack-size", format!("{} acknowledged with larger size {}", what, szx_size(rs))));
                            }
                            if rn as usize * szx_size(rs) != n as usize * size {
                                out.push(Violation::new("C09", "ack-num", format!("{} acknowledged as block {} of size {}", what, rn, szx_size(rs))));
                            }
                        }
                    }
                }
            }
            if a.app.is_some() {
                out.push(Violation::new("C09", "not-app", format!("{} reached the application", what)));
            }
        } else {
            // deliveries of the final block
            if idx == first_final {
                stats.hit("c09.final-checked");
                match &a.app {
                    None => out.push(Violation::new("C09", "app-once", format!("first delivery of final {} did not reach the application (ireq {:?})", what, a.ireq)).with_sig("final-block-not-delivered")),
                    Some(call) => {
                        app_calls_on_final += 1;
                        if call.body_in != body {
                            let first_diff = call.body_in.iter().zip(body.iter()).position(|(x, y)| x != y).unwrap_or(call.body_in.len().min(body.len()));
                            out.push(Violation::new(
                                "C09",
                                "body",
                                format!("application received {} bytes, client sent {} bytes; first difference at offset {} ({})", call.body_in.len(), body.len(), first_diff, what),
                            ));
                        }
                    }
                }
                match &rp {
                    None => out.push(Violation::new("C09", "final-ack", format!("no reply to final {}", what))),
                    Some(p) => {
                        if block_opt(p, CoapOption::Block1).is_none() && p.first_opt(CoapOption::Block1).is_none() {
                            out.push(Violation::new("C09", "final-ack", format!("reply to final {} carries no Block1 option", what)));
                        }
                    }
                }
            } else if a.app.is_some() {
                app_calls_on_final += 1;
                stats.hit("probe.c09.duplicate-of-final-block");
                out.push(
                    Violation::new(
                        "C09",
                        "app-once",
                        format!(
                            "consecutive duplicate of final {} reached the application again with a {}-byte body",
                            what,
                            a.app.as_ref().unwrap().body_in.len()
                        ),
                    )
                    .with_sig("app-invoked-by-duplicate-of-final-block"),
                );
            } else {
                stats.hit("probe.c09.duplicate-of-final-block");
            }
        }
    }
    let _ = (is_complete, app_calls_on_final);
    true
}

/// C09/too-large: a request too large for the budget without a Block1 option
/// is answered 4.13 with a size hint and not processed.
pub fn check_c09_too_large(server: &Server, stats: &mut Stats, out: &mut Vec<Violation>) {
    let m = server.cfg.budget;
    for a in &server.log {
        if !a.is_request || a.corrupted || a.tag.kind != TagKind::Coop || a.block1.is_some() || a.block2.is_some() {
            continue;
        }
        if a.mtype > 1 {
            continue;
        }
        if a.bytes_len > m && m >= a.req_overhead + 28 && m <= 1280 {
            stats.hit("c09.too-large.checked");
            let rp = reply_packet(a);
            let ok = rp.as_ref().map_or(false, |p| p.code == 0x8D && block_opt(p, CoapOption::Block1).is_some());
            if !ok || a.app.is_some() {
                out.push(Violation::new(
                    "C09",
                    "too-large",
                    format!("{}-byte request without Block1 under budget {}: reply {}, application invoked: {}", a.bytes_len, m, a.reply.as_ref().map(|b| describe_reply(b)).unwrap_or_default(), a.app.is_some()),
                ));
            }
        }
    }
}

/// C08 clauses for one download whose premise holds.  Returns true if the
/// transfer was in premise.
pub fn check_c08(server: &Server, lane: &Lane, t: &TransferSpec, v: &TransferView, stats: &mut Stats, out: &mut Vec<Violation>) -> bool {
    let log = &server.log;
    let m = server.cfg.budget;
    // which arrivals form the download part?
    let (dl_first, n_dl) = match &v.shape {
        Shape::Download { n } => (0usize, *n),
        Shape::UploadComplete { first_final, followups } if *followups > 0 => {
            // the download starts with the (last delivery of the) final block
            let start = v.arrivals.len() - *followups - 1;
            if start != *first_final {
                // final block was duplicated: the reply was produced twice
                return false;
            }
            (start, *followups + 1)
        }
        _ => return false,
    };
    if !v.contiguous {
        stats.hit("c08.out-of-premise.history");
        return false;
    }
    if v.expired_within {
        stats.hit("c08.out-of-premise.expiry-elapsed");
        return false;
    }
    let a0 = &log[v.arrivals[dl_first]];
    if v.open_before && !(a0.block2.is_none() && dl_first == 0) {
        stats.hit("c08.out-of-premise.unfinished-cache");
        return false;
    }
    for k in 0..n_dl {
        let a = &log[v.arrivals[dl_first + k]];
        if m > 1280 || m < a.req_overhead + 28 {
            stats.hit("c08.out-of-premise.budget");
            return false;
        }
        // client size preference in {none, szx 0..6}: 7 is reserved
        if a.block2.map_or(false, |b| b.2 == 7) {
            stats.hit("c08.out-of-premise.reserved-szx");
            return false;
        }
    }
    let Some(call) = &a0.app else {
        // in premise the first request always reaches the application
        if !matches!(a0.ireq, Some(HOut::Err(_))) {
            out.push(Violation::new("C08", "app-once", format!("first request of a download did not reach the application although no unfinished transfer was cached (ireq {:?})", a0.ireq)));
        }
        return false;
    };
    if !call.found {
        return false;
    }
    if call.code >= 0x80 {
        // the application answered with an error code: C08 speaks about the
        // body of a (successful) response; C10 still watches the sizes
        stats.hit("c08.out-of-premise.error-code-reply");
        return false;
    }
    let Some(ov) = a0.resp_overhead else { return false };
    if m > 1280 || m < ov + 28 {
        stats.hit("c08.out-of-premise.budget");
        return false;
    }
    let res = lane.results.iter().find(|r| r.transfer == v.ti);
    let Some(res) = res else { return false };
    if res.status == TStatus::Running {
        stats.hit("c08.unfinished-at-cap");
        return false;
    }
    stats.hit("c08.in-premise");
    let body = gen_body(call.body_out_id, call.body_out_len);
    let pref = match &t.kind {
        TKind::Download { early, reduce } => format!("early={:?} reduce={:?}", early, reduce),
        _ => "after-upload".into(),
    };
    let ctx = format!("{}-byte body, budget {}, reply overhead {}, client {}", body.len(), m, ov, pref);
    if body.is_empty() && a0.block2.is_some() {
        stats.hit("probe.c08.empty-body-early-negotiation");
    }
    // walk the replies the server produced
    let mut assembled: Vec<u8> = Vec::new();
    let mut finished = false;
    let mut served_size: Option<usize> = None;
    for k in 0..n_dl {
        let a = &log[v.arrivals[dl_first + k]];
        if k > 0 {
            if a.app.is_some() {
                out.push(Violation::new("C08", "cache-served", format!("follow-up request {} reached the application ({})", k, ctx)));
            } else {
                stats.hit("c08.cache-served.checked");
            }
        }
        let Some(p) = reply_packet(a) else {
            out.push(Violation::new("C08", "progress", format!("request {} got no (parseable) reply ({})", k, ctx)));
            return true;
        };
        let code = p.code;
        if code >= 0x80 {
            out.push(Violation::new("C08", "progress", format!("request {} answered {}.{:02} \"{}\" ({})", k, code >> 5, code & 31, String::from_utf8_lossy(&p.payload), ctx)));
            return true;
        }
        if finished {
            out.push(Violation::new("C08", "progress", format!("client kept requesting after the final block ({})", ctx)));
            return true;
        }
        // application options repeated on every block
        for (num, vals) in &call.opts_out {
            let got: Vec<Vec<u8>> = p.opt_values(*num as u32);
            if &got != vals {
                out.push(Violation::new("C08", "options", format!("block {} does not repeat application option {} unchanged ({})", k, num, ctx)));
            }
        }
        // the block size the client asked for in this request (early
        // negotiation in the first one, possibly a smaller one later) is the
        // block size of the transfer from there on: nothing larger is served
        let asked = a.block2.filter(|b| b.2 <= 6).map(|b| szx_size(b.2)).filter(|cs| k == 0 || served_size.map_or(true, |ss| *cs <= ss));
        match block_opt(&p, CoapOption::Block2) {
            None => {
                if k != 0 {
                    out.push(Violation::new("C08", "offset", format!("follow-up reply {} has no Block2 option ({})", k, ctx)));
                    return true;
                }
                if let Some(cs) = asked {
                    if p.payload.len() > cs {
                        out.push(Violation::new("C08", "block-size", format!("the client asked for {}-byte blocks in its first request and was sent {} bytes in one unfragmented reply ({})", cs, p.payload.len(), ctx)).with_sig("asked-size"));
                    }
                }
                assembled.extend_from_slice(&p.payload);
                finished = true;
            }
            Some((num, more, sx)) => {
                let size = szx_size(sx);
                if let Some(cs) = asked {
                    if size > cs {
                        out.push(Violation::new("C08", "block-size", format!("the client asked for {}-byte blocks in request {} and was served a block of size {} ({})", cs, k, size, ctx)).with_sig("asked-size"));
                    }
                }
                served_size = Some(size);
                if num as usize * size != assembled.len() {
                    out.push(Violation::new("C08", "offset", format!("block {} of size {} delivered at offset {} ({})", num, size, assembled.len(), ctx)));
                }
                if more && p.payload.len() != size {
                    out.push(Violation::new("C08", "block-size", format!("non-final block {} carries {} bytes, block size {} ({})", num, p.payload.len(), size, ctx)));
                }
                if !more && p.payload.len() > size {
                    out.push(Violation::new("C08", "final", format!("final block {} carries {} bytes > block size {} ({})", num, p.payload.len(), size, ctx)));
                }
                if more && assembled.len() + p.payload.len() >= body.len() {
                    out.push(Violation::new("C08", "final", format!("block {} ends the body but has the more flag set ({})", num, ctx)));
                }
                if !more && assembled.len() + p.payload.len() < body.len() {
                    out.push(Violation::new("C08", "final", format!("block {} has the more flag clear at {} of {} bytes ({})", num, assembled.len() + p.payload.len(), body.len(), ctx)));
                }
                assembled.extend_from_slice(&p.payload);
                if !more {
                    finished = true;
                }
                if k > 0 && a.block2.map(|b| b.2) != Some(sx) {
                    stats.hit("probe.c08.followup-size-differs-from-request");
                }
            }
        }
    }
    // did the transfer end, and with the right body?
    if res.tainted {
        stats.hit("c08.client-view-tainted");
        return true;
    }
    match &res.status {
        TStatus::Done | TStatus::Abandoned | TStatus::Running => {}
        // a reply lost by the network is not the handler's doing; what the
        // server produced for the requests that did arrive was checked above
        TStatus::Failed("timeout") => {}
        TStatus::Failed(why) => {
            out.push(Violation::new("C08", "progress", format!("client gave up: {} ({})", why, ctx)));
            return true;
        }
    }
    if !finished {
        if res.status == TStatus::Done {
            out.push(Violation::new("C08", "progress", format!("transfer ended after {} exchanges without a final block ({})", n_dl, ctx)));
        }
        stats.hit("c08.in-premise-prefix-only");
        return true;
    }
    if assembled != body {
        let first_diff = assembled.iter().zip(body.iter()).position(|(x, y)| x != y).unwrap_or(assembled.len().min(body.len()));
        out.push(Violation::new("C08", "body", format!("reassembled {} bytes, application produced {}; first difference at offset {} ({})", assembled.len(), body.len(), first_diff, ctx)));
    }
    // end-to-end view: what the client stub assembled from the bytes it got
    if dl_first == 0 && res.status == TStatus::Done && res.body != body {
        out.push(Violation::new("C08", "body", format!("client assembled {} bytes, application produced {} ({})", res.body.len(), body.len(), ctx)));
    }
    let max_ex = body.len() / 16 + 2;
    if n_dl > max_ex {
        out.push(Violation::new("C08", "progress", format!("{} exchanges for a {}-byte body ({})", n_dl, body.len(), ctx)));
    }
    // cache released after the final block
    if v.probe_adjacent && !v.open_before && n_dl >= 1 {
        if let Some(&ps) = v.probes.first() {
            let pa = &log[ps];
            // "the next request": one of the kind the property speaks about
            // (a Block2 option with the reserved size exponent is not)
            if pa.block2.map_or(false, |b| b.2 == 7) {
                stats.hit("c08.released.out-of-premise.reserved-szx");
                return true;
            }
            stats.hit("c08.released.checked");
            if n_dl > 1 {
                stats.hit("c08.released.after-fragmented");
            }
            if pa.app.is_none() {
                out.push(Violation::new("C08", "released", format!("request after the final block did not reach the application (ireq {:?}) ({})", pa.ireq, ctx)));
            }
        }
    }
    if n_dl > 1 {
        stats.hit("c08.fragmented-in-premise");
        if let TKind::Download { reduce: Some(_), .. } = &t.kind {
            let sizes: Vec<u8> = (0..n_dl).filter_map(|k| log[v.arrivals[dl_first + k]].block2.map(|b| b.2)).collect();
            if sizes.windows(2).any(|w| w[1] < w[0]) {
                stats.hit("probe.c08.client-reduced-mid-transfer");
            }
        }
        if body.len() % szx_size(block_opt(&reply_packet(a0).unwrap(), CoapOption::Block2).map_or(0, |b| b.2)) == 0 {
            stats.hit("probe.c08.body-exact-multiple");
        }
    }
    true
}
