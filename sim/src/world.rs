//! The simulated deployment: client stubs (state machines driven by their
//! materialised scripts and by the replies they receive), the lossy network
//! and the server node, run as one single-threaded discrete-event simulation.
use crate::choices::Ch;
use crate::common::*;
use crate::des::*;
use crate::server::*;
use crate::refparse::{self, Fields};
use coap_lite::MessageType;
use std::collections::BTreeMap;

// ---------------------------------------------------------------------------
// scripts

#[derive(Clone, Debug)]
pub enum TKind {
    /// GET / FETCH download.  `early`: Block2 option in the first request;
    /// `reduce`: after that many blocks switch to the smaller exponent.
    Download { early: Option<u8>, reduce: Option<(u32, u8)> },
    /// Block1 upload of gen_body(body_id, len) in blocks of 2^(szx+4).
    /// `dups[i]`: extra back-to-back copies of block i; `abandon_after`: stop
    /// after that many blocks; `adapt`: follow a smaller size in a 2.31.
    Upload { body_id: u64, len: usize, szx: u8, dups: Vec<u8>, abandon_after: Option<u32>, adapt: bool },
    /// One request without block options carrying `payload_len` bytes
    /// (switches to Block1 if the server answers 4.13 with a size hint).
    Plain { body_id: u64, payload_len: usize },
    /// Fire-and-forget datagrams (hostile / byzantine / noise senders).
    Raw { datagrams: Vec<Vec<u8>>, gap_ns: u64 },
}

#[derive(Clone, Debug, PartialEq)]
pub enum Probe {
    None,
    NoBlock2,
    Block2Zero(u8),
}

#[derive(Clone, Debug)]
pub struct TransferSpec {
    pub method: u8,
    pub path: Vec<Vec<u8>>,
    pub con: bool,
    pub token_len: usize,
    /// the token length changes from request to request within the transfer
    pub token_vary: bool,
    /// the client sets the M bit in the Block2 options of its requests (it
    /// has no function there; receivers ignore it)
    pub b2_more: bool,
    /// the client walks away after this many exchanges
    pub stop_after: Option<u32>,
    pub extra: Vec<(u16, Vec<u8>)>,
    pub kind: TKind,
    pub probe: Probe,
    /// idle time before the transfer starts
    pub pre_gap_ns: u64,
    /// idle time before exchange i (i >= 1) of the transfer: (i, gap)
    pub gaps: Vec<(u32, u64)>,
    /// scripted reply losses: before exchange i completes, its reply is
    /// discarded that many times and the request retransmitted (used by the
    /// stepper, which has no timers)
    pub lose_replies: Vec<(u32, u8)>,
    pub tag_kind: TagKind,
}

#[derive(Clone, Debug)]
pub struct LaneSpec {
    pub transfers: Vec<TransferSpec>,
    pub timeout_ms: u64,
}

#[derive(Clone, Debug)]
pub struct ClientSpec {
    pub ep: Ep,
    pub lanes: Vec<LaneSpec>,
    pub mid0: u16,
    pub tok_seed: u64,
    pub net: NetCfg,
    pub via_proxy: bool,
}

#[derive(Clone, Debug)]
pub struct WorldSpec {
    pub server: ServerCfg,
    pub resources: BTreeMap<Vec<Vec<u8>>, ResSpec>,
    pub clients: Vec<ClientSpec>,
    pub max_events: u64,
    /// per mille of application calls that take simulated time (split-phase:
    /// other datagrams are processed in between; datagrams for the same cache
    /// key wait, because the API gives no meaning to overlapping exchanges on
    /// one key)
    pub slow_app_pm: u64,
}

// ---------------------------------------------------------------------------
// results

#[derive(Clone, Debug, PartialEq)]
pub enum TStatus {
    Running,
    Done,
    Abandoned,
    Failed(&'static str),
}

#[derive(Clone, Debug)]
pub struct TransferResult {
    pub client: usize,
    pub lane: usize,
    pub transfer: usize,
    pub status: TStatus,
    /// body assembled by the client from the replies it accepted
    pub body: Vec<u8>,
    /// replies accepted as answers to this transfer's exchanges, in order
    pub replies: Vec<Vec<u8>>,
    /// all replies delivered to the lane while this transfer ran (C12)
    pub exchanges: u32,
    pub retransmissions: u32,
    pub final_code: u8,
    pub probe_reply: Option<Vec<u8>>,
    /// the client accepted a reply that (ground truth) was produced for a
    /// different exchange: its own view of the transfer is unreliable
    pub tainted: bool,
    pub t_start: u64,
    pub t_end: u64,
}

// ---------------------------------------------------------------------------
// message building (reference encoder)

pub fn build_request(
    method: u8,
    mtype: MessageType,
    mid: u16,
    token: &[u8],
    path: &[Vec<u8>],
    extra: &[(u16, Vec<u8>)],
    b1: Option<(u16, bool, u8)>,
    b2: Option<(u16, bool, u8)>,
    payload: &[u8],
) -> Vec<u8> {
    // client stubs serialise with the reference encoder, not with the codec
    // of the crate under test: a codec defect must not cancel out between
    // the stub and the server
    let mut opts: Vec<(u32, Vec<u8>)> = Vec::new();
    for seg in path {
        opts.push((11, seg.clone()));
    }
    for (n, v) in extra {
        opts.push((*n as u32, v.clone()));
    }
    if let Some((n, m, s)) = b1 {
        opts.push((27, refparse::block_encode(n as u32, m, s)));
    }
    if let Some((n, m, s)) = b2 {
        opts.push((23, refparse::block_encode(n as u32, m, s)));
    }
    let t = match mtype {
        MessageType::Confirmable => 0,
        MessageType::NonConfirmable => 1,
        MessageType::Acknowledgement => 2,
        MessageType::Reset => 3,
    };
    refparse::encode(1, t, method, mid, token, &opts, payload)
}

const BLOCK1: u32 = 27;
const BLOCK2: u32 = 23;

/// Block option of a reply, as the (reference) client decodes it.  Block
/// numbers beyond 16 bits are clamped: no transfer here comes near them.
fn block_opt(p: &Fields, o: u32) -> Option<(u16, bool, u8)> {
    p.block(o).map(|(n, m, s)| (n.min(u16::MAX as u32) as u16, m, s))
}

// ---------------------------------------------------------------------------
// client lane

#[derive(Clone, Debug)]
pub struct Outstanding {
    pub bytes: Vec<u8>,
    pub mid: u16,
    pub token: Vec<u8>,
    pub con: bool,
    pub attempts: u32,
    pub tag: Tag,
}

#[derive(Clone, Debug, PartialEq)]
enum Phase {
    Idle,
    Upload,
    Download,
    Plain,
    Probe,
    Raw,
    Finished,
}

pub enum Out {
    Send { bytes: Vec<u8>, tag: Tag },
    Timer { after_ns: u64, gen: u64 },
    /// schedule `start_next` after a pause
    StartAfter { after_ns: u64 },
    /// schedule `resume` (next exchange of the running transfer) after a pause
    ResumeAfter { after_ns: u64 },
}

pub struct Lane {
    pub ci: usize,
    pub li: usize,
    pub ep: Ep,
    pub spec: LaneSpec,
    pub ti: usize,
    phase: Phase,
    exch: u32,
    pub out: Option<Outstanding>,
    pub timer_gen: u64,
    // upload state
    up_body: Vec<u8>,
    up_size_szx: u8,
    up_off: usize,
    up_blocks_sent: u32,
    // download state
    dl_szx: Option<u8>,
    dl_blocks: u32,
    pub results: Vec<TransferResult>,
    pub done: bool,
    raw_idx: usize,
    lost_left: u8,
    pending: Option<(Vec<u8>, Tag, Outstanding)>,
}

/// Per-client counters shared by its lanes: message ids are sequential from
/// a random start and tokens embed a request counter, so concurrently
/// outstanding requests of one endpoint are always distinguishable.
pub struct ClientIds {
    pub next_mid: u16,
    pub ctr: u16,
    pub tok_rng: crate::choices::Xoshiro,
}

impl ClientIds {
    pub fn fresh(&mut self, token_len: usize) -> (u16, Vec<u8>) {
        let mid = self.next_mid;
        self.next_mid = self.next_mid.wrapping_add(1);
        let c = self.ctr;
        self.ctr = self.ctr.wrapping_add(1);
        let r = self.tok_rng.next().to_le_bytes();
        let all = [(c & 0xFF) as u8, (c >> 8) as u8, r[0], r[1], r[2], r[3], r[4], r[5]];
        (mid, all[..token_len.min(8)].to_vec())
    }
}

const MAX_EXCHANGES: u32 = 3000;

impl Lane {
    pub fn new(ci: usize, li: usize, ep: Ep, spec: LaneSpec) -> Lane {
        Lane {
            ci,
            li,
            ep,
            spec,
            ti: 0,
            phase: Phase::Idle,
            exch: 0,
            out: None,
            timer_gen: 0,
            up_body: vec![],
            up_size_szx: 0,
            up_off: 0,
            up_blocks_sent: 0,
            dl_szx: None,
            dl_blocks: 0,
            results: Vec::new(),
            done: false,
            raw_idx: 0,
            lost_left: 0,
            pending: None,
        }
    }

    fn tspec(&self) -> &TransferSpec {
        &self.spec.transfers[self.ti]
    }

    fn tag(&self, copy: u16) -> Tag {
        let kind = if self.phase == Phase::Probe { TagKind::Probe } else { self.tspec().tag_kind };
        Tag { client: self.ci as u16, lane: self.li as u16, transfer: self.ti as u16, exch: self.exch, copy, kind }
    }

    fn cur(&mut self) -> &mut TransferResult {
        self.results.last_mut().unwrap()
    }

    /// First transfer: called once at time 0.
    pub fn begin(&mut self) -> Vec<Out> {
        if self.spec.transfers.is_empty() {
            self.done = true;
            return vec![];
        }
        vec![Out::StartAfter { after_ns: self.spec.transfers[0].pre_gap_ns }]
    }

    /// Starts transfer `self.ti`.
    pub fn start(&mut self, now: u64, ids: &mut ClientIds) -> Vec<Out> {
        if self.ti >= self.spec.transfers.len() {
            self.done = true;
            self.phase = Phase::Finished;
            return vec![];
        }
        self.exch = 0;
        self.results.push(TransferResult {
            client: self.ci,
            lane: self.li,
            transfer: self.ti,
            status: TStatus::Running,
            body: vec![],
            replies: vec![],
            exchanges: 0,
            retransmissions: 0,
            final_code: 0,
            probe_reply: None,
            tainted: false,
            t_start: now,
            t_end: now,
        });
        let t = self.tspec().clone();
        match &t.kind {
            TKind::Download { early, .. } => {
                self.phase = Phase::Download;
                self.dl_szx = None;
                self.dl_blocks = 0;
                let b2 = early.map(|s| (0u16, false, s));
                self.send_req(ids, None, b2, &[], &[])
            }
            TKind::Upload { body_id, len, szx, .. } => {
                self.phase = Phase::Upload;
                self.up_body = gen_body(*body_id, *len);
                self.up_size_szx = *szx;
                self.up_off = 0;
                self.up_blocks_sent = 0;
                self.send_upload_block(ids)
            }
            TKind::Plain { body_id, payload_len } => {
                self.phase = Phase::Plain;
                self.up_body = gen_body(*body_id, *payload_len);
                let body = self.up_body.clone();
                self.send_req(ids, None, None, &body, &[])
            }
            TKind::Raw { .. } => {
                self.phase = Phase::Raw;
                self.raw_idx = 0;
                self.raw_step()
            }
        }
    }

    fn raw_step(&mut self) -> Vec<Out> {
        let next = if let TKind::Raw { datagrams, gap_ns } = &self.spec.transfers[self.ti].kind {
            datagrams.get(self.raw_idx).map(|d| (d.clone(), *gap_ns))
        } else {
            None
        };
        if let Some((bytes, gap_ns)) = next {
            self.exch = self.raw_idx as u32;
            let tag = self.tag(0);
            self.raw_idx += 1;
            self.cur().exchanges += 1;
            return vec![Out::Send { bytes, tag }, Out::ResumeAfter { after_ns: gap_ns }];
        }
        self.finish(TStatus::Done)
    }

    /// Continue after a scripted pause.
    pub fn resume(&mut self, _now: u64, ids: &mut ClientIds) -> Vec<Out> {
        let _ = ids;
        match self.phase {
            Phase::Raw => self.raw_step(),
            _ => {
                // a paused exchange: send what was prepared
                if let Some((bytes, tag, o)) = self.pending.take() {
                    self.out = Some(o);
                    self.timer_gen += 1;
                    let mut v = vec![Out::Send { bytes, tag }];
                    v.push(Out::Timer { after_ns: self.spec.timeout_ms * MS, gen: self.timer_gen });
                    v
                } else {
                    vec![]
                }
            }
        }
    }

    fn send_req(&mut self, ids: &mut ClientIds, b1: Option<(u16, bool, u8)>, b2: Option<(u16, bool, u8)>, payload: &[u8], dups: &[u8]) -> Vec<Out> {
        let t = self.tspec().clone();
        if self.cur().exchanges >= MAX_EXCHANGES {
            return self.finish(TStatus::Failed("too-many-exchanges"));
        }
        if t.stop_after.map_or(false, |k| self.cur().exchanges >= k) {
            return self.finish(TStatus::Abandoned);
        }
        let tl = if t.token_vary {
            let l = [t.token_len, 0, 8, 1, 2, 7, 3][self.exch as usize % 7];
            if t.con {
                l
            } else {
                l.max(2)
            }
        } else {
            t.token_len
        };
        let b2 = if t.b2_more { b2.map(|(n, _, sx)| (n, true, sx)) } else { b2 };
        let (mid, token) = ids.fresh(tl);
        let mtype = if t.con { MessageType::Confirmable } else { MessageType::NonConfirmable };
        let bytes = build_request(t.method, mtype, mid, &token, &t.path, &t.extra, b1, b2, payload);
        let tag = self.tag(0);
        let o = Outstanding { bytes: bytes.clone(), mid, token, con: t.con, attempts: 1, tag };
        self.cur().exchanges += 1;
        self.lost_left = t.lose_replies.iter().find(|(i, _)| *i == self.exch).map(|x| x.1).unwrap_or(0);
        // scripted idle gap before this exchange?
        if let Some((_, gap)) = t.gaps.iter().find(|(i, _)| *i == self.exch) {
            self.pending = Some((bytes, tag, o));
            return vec![Out::ResumeAfter { after_ns: *gap }];
        }
        self.out = Some(o);
        self.timer_gen += 1;
        let mut v = vec![Out::Send { bytes: bytes.clone(), tag }];
        let ndup = dups.first().copied().unwrap_or(0);
        for c in 0..ndup {
            let mut tg = tag;
            tg.copy = c as u16 + 1;
            v.push(Out::Send { bytes: bytes.clone(), tag: tg });
        }
        v.push(Out::Timer { after_ns: self.spec.timeout_ms * MS, gen: self.timer_gen });
        v
    }

    fn send_upload_block(&mut self, ids: &mut ClientIds) -> Vec<Out> {
        let t = self.tspec().clone();
        let (dups, abandon_after) = match &t.kind {
            TKind::Upload { dups, abandon_after, .. } => (dups.clone(), *abandon_after),
            _ => (vec![], None),
        };
        if let Some(j) = abandon_after {
            if self.up_blocks_sent >= j {
                return self.finish(TStatus::Abandoned);
            }
        }
        let size = szx_size(self.up_size_szx);
        let off = self.up_off;
        let end = (off + size).min(self.up_body.len());
        let more = end < self.up_body.len();
        let num = off / size;
        if num > 0xFFF {
            return self.finish(TStatus::Failed("block-number-too-large"));
        }
        let payload = self.up_body[off..end].to_vec();
        let d = dups.get(self.up_blocks_sent as usize).copied().unwrap_or(0);
        self.up_blocks_sent += 1;
        self.send_req(ids, Some((num as u16, more, self.up_size_szx)), None, &payload, &[d])
    }

    fn finish(&mut self, st: TStatus) -> Vec<Out> {
        self.out = None;
        self.timer_gen += 1;
        self.cur().status = st;
        self.ti += 1;
        if self.ti >= self.spec.transfers.len() {
            self.done = true;
            self.phase = Phase::Finished;
            return vec![];
        }
        self.phase = Phase::Idle;
        let gap = self.spec.transfers[self.ti].pre_gap_ns;
        vec![Out::StartAfter { after_ns: gap }]
    }

    /// Does this reply answer the outstanding request, by the RFC 7252 rules
    /// (ACK: message id and token; separate/NON: token)?
    pub fn matches(&self, p: &Fields) -> bool {
        match &self.out {
            None => false,
            Some(o) => {
                if p.token != o.token {
                    return false;
                }
                match p.mtype() {
                    2 | 3 => p.mid == o.mid,
                    _ => true,
                }
            }
        }
    }

    /// Scripted loss (stepper only): should the reply to the outstanding
    /// exchange be discarded and the request retransmitted?
    pub fn take_scripted_loss(&mut self) -> bool {
        if self.lost_left > 0 {
            self.lost_left -= 1;
            true
        } else {
            false
        }
    }

    pub fn on_timer(&mut self, gen: u64) -> Vec<Out> {
        if gen != self.timer_gen {
            return vec![];
        }
        let timeout = self.spec.timeout_ms * MS;
        match self.out.as_mut() {
            None => vec![],
            Some(o) => {
                if o.con && o.attempts <= 4 {
                    o.attempts += 1;
                    let mut tag = o.tag;
                    tag.copy = 100 + o.attempts as u16;
                    let bytes = o.bytes.clone();
                    let backoff = timeout << (o.attempts - 1).min(5);
                    self.timer_gen += 1;
                    let g = self.timer_gen;
                    self.cur().retransmissions += 1;
                    vec![Out::Send { bytes, tag }, Out::Timer { after_ns: backoff, gen: g }]
                } else {
                    self.finish(TStatus::Failed("timeout"))
                }
            }
        }
    }

    /// Immediate retransmission (stepper: the scripted loss of a reply).
    pub fn retransmit_now(&mut self) -> Vec<Out> {
        match self.out.as_mut() {
            None => vec![],
            Some(o) => {
                o.attempts += 1;
                let mut tag = o.tag;
                tag.copy = 100 + o.attempts as u16;
                let bytes = o.bytes.clone();
                self.results.last_mut().unwrap().retransmissions += 1;
                vec![Out::Send { bytes, tag }]
            }
        }
    }

    /// A reply that `matches` the outstanding request.
    pub fn on_reply(&mut self, now: u64, p: &Fields, raw: &[u8], ids: &mut ClientIds) -> Vec<Out> {
        self.out = None;
        self.timer_gen += 1;
        self.exch += 1;
        let code = p.code;
        {
            let c = self.cur();
            c.replies.push(raw.to_vec());
            c.final_code = code;
            c.t_end = now;
        }
        let t = self.tspec().clone();
        match self.phase {
            Phase::Upload => {
                let size = szx_size(self.up_size_szx);
                let end = (self.up_off + size).min(self.up_body.len());
                let was_final = end >= self.up_body.len();
                if !was_final {
                    if code != 0x5F {
                        return self.finish(TStatus::Failed("upload-refused"));
                    }
                    self.up_off = end;
                    if let TKind::Upload { adapt: true, .. } = t.kind {
                        if let Some((_, _, s)) = block_opt(p, BLOCK1) {
                            if s < self.up_size_szx {
                                self.up_size_szx = s;
                            }
                        }
                    }
                    self.send_upload_block(ids)
                } else {
                    self.after_final_reply(p, ids)
                }
            }
            Phase::Plain => {
                if code == 0x8D {
                    // 4.13 with a Block1 size hint: retry block-wise
                    if let Some((_, _, s)) = block_opt(p, BLOCK1) {
                        if s <= 6 && !self.up_body.is_empty() {
                            self.phase = Phase::Upload;
                            self.up_size_szx = s;
                            self.up_off = 0;
                            self.up_blocks_sent = 0;
                            return self.send_upload_block(ids);
                        }
                    }
                    return self.finish(TStatus::Failed("too-large"));
                }
                self.after_final_reply(p, ids)
            }
            Phase::Download => self.on_download_reply(p, ids),
            Phase::Probe => {
                self.cur().probe_reply = Some(raw.to_vec());
                self.cur().replies.pop();
                self.finish(TStatus::Done)
            }
            _ => vec![],
        }
    }

    fn after_final_reply(&mut self, p: &Fields, ids: &mut ClientIds) -> Vec<Out> {
        // the reply to a complete request may itself be block-wise
        if let Some((_n, more, _s)) = block_opt(p, BLOCK2) {
            if more && p.code < 0x80 {
                self.phase = Phase::Download;
                self.dl_szx = None;
                self.dl_blocks = 0;
                return self.on_download_reply(p, ids);
            }
        }
        let pl = p.payload.clone();
        self.cur().body.extend_from_slice(&pl);
        self.maybe_probe(ids)
    }

    fn on_download_reply(&mut self, p: &Fields, ids: &mut ClientIds) -> Vec<Out> {
        let code = p.code;
        if code >= 0x80 {
            return self.finish(TStatus::Failed("error-reply"));
        }
        let t = self.tspec().clone();
        let pl = p.payload.clone();
        match block_opt(p, BLOCK2) {
            None => {
                self.cur().body.extend_from_slice(&pl);
                self.maybe_probe(ids)
            }
            Some((num, more, szx)) => {
                let size = szx_size(szx);
                // a cooperative client only accepts the block it asked for
                let have = self.cur().body.len();
                if num as usize * size != have {
                    return self.finish(TStatus::Failed("unexpected-block-offset"));
                }
                self.cur().body.extend_from_slice(&pl);
                self.dl_blocks += 1;
                if !more {
                    return self.maybe_probe(ids);
                }
                if pl.len() != size {
                    return self.finish(TStatus::Failed("short-nonfinal-block"));
                }
                let mut use_szx = self.dl_szx.map_or(szx, |s| s.min(szx));
                if let TKind::Download { reduce: Some((after, s)), .. } = &t.kind {
                    if self.dl_blocks >= *after && *s < use_szx {
                        use_szx = *s;
                    }
                }
                self.dl_szx = Some(use_szx);
                let have = self.cur().body.len();
                let next = have / szx_size(use_szx);
                if next > 0xFFF {
                    return self.finish(TStatus::Failed("block-number-too-large"));
                }
                self.send_req(ids, None, Some((next as u16, false, use_szx)), &[], &[])
            }
        }
    }

    fn maybe_probe(&mut self, ids: &mut ClientIds) -> Vec<Out> {
        let t = self.tspec().clone();
        match t.probe {
            Probe::None => self.finish(TStatus::Done),
            Probe::NoBlock2 => {
                self.phase = Phase::Probe;
                self.send_req(ids, None, None, &[], &[])
            }
            Probe::Block2Zero(s) => {
                self.phase = Phase::Probe;
                self.send_req(ids, None, Some((0, false, s)), &[], &[])
            }
        }
    }
}

// ---------------------------------------------------------------------------
// the discrete-event world

enum Ev {
    ToServer { from: usize, tag: Tag, bytes: Vec<u8>, corrupted: bool, net_dup: bool },
    ToClient { to: usize, bytes: Vec<u8>, for_arrival: usize, corrupted: bool },
    Timer { client: usize, lane: usize, gen: u64 },
    Start { client: usize, lane: usize },
    Resume { client: usize, lane: usize },
    AppDone { from: usize, pending: Box<Pending>, key: (Ep, u8, Vec<String>) },
}

pub struct WorldResult {
    pub server: Server,
    pub lanes: Vec<Lane>,
    pub stats: Stats,
    pub trace: Trace,
    pub sim_ns: u64,
    pub violations: Vec<Violation>,
    pub shapes: Vec<u64>,
    pub cap_hit: bool,
}

/// Transparent forwarding proxy: parses with the real parser and forwards
/// `to_bytes_unlimited()` of the result (C02: a parsed and forwarded message
/// is never silently altered; the oracle sits in `check_parse`).
fn proxy_forward(bytes: &[u8], stats: &mut Stats, viol: &mut Vec<Violation>, shapes: &mut Vec<u64>) -> Option<Vec<u8>> {
    stats.hit("proxy.seen");
    match check_parse(bytes, stats, viol, shapes) {
        Some(Ok(p)) => match guard(|| p.to_bytes_unlimited()) {
            Ok(Ok(b)) => {
                stats.hit("proxy.forwarded");
                Some(b)
            }
            _ => None,
        },
        _ => None,
    }
}

pub fn run_world(spec: &WorldSpec, ch: &mut Ch, verbose: bool) -> WorldResult {
    let mut q: Queue<Ev> = Queue::new();
    let mut stats = Stats::default();
    let mut trace = Trace::new(verbose);
    let mut server = Server::new(spec.server.clone());
    server.app.resources = spec.resources.clone();
    let mut violations: Vec<Violation> = Vec::new();
    let mut shapes: Vec<u64> = Vec::new();
    let mut lanes: Vec<Lane> = Vec::new();
    let mut lane_index: Vec<Vec<usize>> = Vec::new();
    let mut ids: Vec<ClientIds> = Vec::new();
    for (ci, c) in spec.clients.iter().enumerate() {
        ids.push(ClientIds { next_mid: c.mid0, ctr: 0, tok_rng: crate::choices::Xoshiro::new(c.tok_seed) });
        let mut idx = Vec::new();
        for (li, l) in c.lanes.iter().enumerate() {
            idx.push(lanes.len());
            lanes.push(Lane::new(ci, li, c.ep, l.clone()));
        }
        lane_index.push(idx);
    }
    // kick off
    for gi in 0..lanes.len() {
        let outs = lanes[gi].begin();
        let (ci, li) = (lanes[gi].ci, lanes[gi].li);
        apply_outs(outs, ci, li, spec, &mut q, ch, &mut stats);
    }
    let mut cap_hit = false;
    let mut last_activity = 0u64;
    let mut ready: std::collections::VecDeque<(usize, Tag, Vec<u8>, bool, bool)> = std::collections::VecDeque::new();
    let mut busy: std::collections::BTreeSet<(Ep, u8, Vec<String>)> = std::collections::BTreeSet::new();
    let mut waiting: BTreeMap<(Ep, u8, Vec<String>), std::collections::VecDeque<(usize, Tag, Vec<u8>, bool, bool)>> = BTreeMap::new();
    while let Some((_seq, ev)) = q.pop() {
        if q.popped > spec.max_events {
            cap_hit = true;
            stats.hit("run.cap-hit");
            break;
        }
        let now = q.now();
        if matches!(ev, Ev::ToServer { .. } | Ev::ToClient { .. } | Ev::AppDone { .. }) {
            // stale retransmission timers far in the future must not count
            // as simulated time covered
            last_activity = now;
        }
        match ev {
            Ev::Start { client, lane } => {
                let gi = lane_index[client][lane];
                let outs = lanes[gi].start(now, &mut ids[client]);
                apply_outs(outs, client, lane, spec, &mut q, ch, &mut stats);
            }
            Ev::Resume { client, lane } => {
                let gi = lane_index[client][lane];
                let outs = lanes[gi].resume(now, &mut ids[client]);
                apply_outs(outs, client, lane, spec, &mut q, ch, &mut stats);
            }
            Ev::Timer { client, lane, gen } => {
                let gi = lane_index[client][lane];
                let outs = lanes[gi].on_timer(gen);
                if !outs.is_empty() {
                    stats.hit("client.timer-fired");
                    trace.line(|| format!("t={} c{} l{}: timer fired", now, client, lane));
                }
                apply_outs(outs, client, lane, spec, &mut q, ch, &mut stats);
            }
            Ev::ToServer { from, tag, bytes, corrupted, net_dup } => {
                let c = &spec.clients[from];
                let bytes = if c.via_proxy {
                    match proxy_forward(&bytes, &mut stats, &mut violations, &mut shapes) {
                        Some(b) => b,
                        None => continue,
                    }
                } else {
                    bytes
                };
                ready.push_back((from, tag, bytes, corrupted, net_dup));
            }
            Ev::AppDone { from, pending, key } => {
                stats.hit("srv.slow-app.done");
                let reply = server.finish(*pending, now, &mut stats, &mut trace);
                send_reply(spec, &server, from, reply, &mut q, ch, &mut stats, &mut violations, &mut shapes);
                busy.remove(&key);
                if let Some(wq) = waiting.remove(&key) {
                    for x in wq {
                        ready.push_back(x);
                    }
                }
            }
            Ev::ToClient { to, bytes, for_arrival, corrupted } => {
                trace.ev(3, to as u64, &bytes);
                // the real parser sees the reply too (C02 / C03 oracle at every
                // parse point); the client stub itself decodes with the
                // reference parser
                let _ = check_parse(&bytes, &mut stats, &mut violations, &mut shapes);
                let Some(p) = refparse::accept(&bytes) else {
                    stats.hit("client.reply-unparseable");
                    continue;
                };
                // demultiplex to the lane whose outstanding request it answers
                let mut hit = None;
                for &gi in &lane_index[to] {
                    if lanes[gi].matches(&p) {
                        hit = Some(gi);
                        break;
                    }
                }
                match hit {
                    None => {
                        stats.hit("client.stale-reply");
                        trace.line(|| format!("t={} c{}: stale/unmatched reply ignored ({})", now, to, describe_reply(&bytes)));
                    }
                    Some(gi) => {
                        // C07/match: the request this reply is attributed to
                        // by the protocol rule is the one it was produced for
                        let o = lanes[gi].out.clone().unwrap();
                        let truth = server.log[for_arrival].tag;
                        let is_ack = p.mtype() == 2;
                        let same = truth.client == o.tag.client && truth.lane == o.tag.lane && truth.transfer == o.tag.transfer && truth.exch == o.tag.exch;
                        if !same || corrupted {
                            // e.g. an empty token on a NON reply cannot tell
                            // two exchanges apart: protocol weakness, not a
                            // property of the library
                            stats.hit("client.misattributed-reply");
                            if let Some(r) = lanes[gi].results.last_mut() {
                                r.tainted = true;
                            }
                        }
                        if !corrupted && (is_ack || o.token.len() >= 2) {
                            stats.hit("c07.match.checked");
                            // only between exchanges whose ids come from the
                            // client's own fresh-id generator: scripted hostile /
                            // noise / raw datagrams of the same endpoint pick
                            // their ids independently and may coincide
                            let fresh_ids = truth.kind == TagKind::Coop && o.tag.kind == TagKind::Coop;
                            if !same && !server.log[for_arrival].corrupted && fresh_ids {
                                violations.push(Violation::new(
                                    "C07",
                                    "match",
                                    format!("reply produced for {:?} was matched by message id/token to the outstanding request {:?}", truth, o.tag),
                                ));
                            }
                        }
                        let (ci, li) = (lanes[gi].ci, lanes[gi].li);
                        trace.line(|| format!("t={} c{} l{}: accepted {} (outstanding mid={} type={})", now, ci, li, describe_reply(&bytes), o.mid, p.mtype()));
                        let outs = lanes[gi].on_reply(now, &p, &bytes, &mut ids[to]);
                        apply_outs(outs, ci, li, spec, &mut q, ch, &mut stats);
                    }
                }
            }
        }
        while let Some((from, tag, bytes, corrupted, net_dup)) = ready.pop_front() {
            if server.dead {
                break;
            }
            let ep = spec.clients[from].ep;
            // the cache key as the handler forms it
            let key: Option<(Ep, u8, Vec<String>)> = refparse::accept(&bytes).map(|f| {
                let segs: Option<Vec<String>> = f.opt_values(11).into_iter().map(|sg| String::from_utf8(sg).ok()).collect();
                (ep, method_ord(f.code), segs.unwrap_or_default())
            });
            if let Some(k) = &key {
                if busy.contains(k) {
                    stats.hit("srv.slow-app.same-key-waited");
                    waiting.entry(k.clone()).or_default().push_back((from, tag, bytes, corrupted, net_dup));
                    continue;
                }
            }
            stats.hit("srv.datagrams");
            match server.begin(now, ep, tag, &bytes, corrupted, net_dup, &mut stats, &mut trace, &mut shapes) {
                Step::Done(reply) => send_reply(spec, &server, from, reply, &mut q, ch, &mut stats, &mut violations, &mut shapes),
                Step::NeedsApp(p) => {
                    if spec.slow_app_pm > 0 && key.is_some() && ch.chance(spec.slow_app_pm, 1000, "srv.slow-app") {
                        stats.hit("fault.slow-app-split");
                        // mostly a few milliseconds, now and then long enough
                        // for dozens of other exchanges to pass
                        let d = if ch.chance(1, 6, "srv.slow-app.long") { (50 + ch.below(350, "srv.slow-app.ms")) * MS } else { (1 + ch.below(30, "srv.slow-app.ms")) * MS };
                        let k = key.unwrap();
                        busy.insert(k.clone());
                        q.after(d, Ev::AppDone { from, pending: p, key: k });
                    } else {
                        let reply = server.finish(*p, now, &mut stats, &mut trace);
                        send_reply(spec, &server, from, reply, &mut q, ch, &mut stats, &mut violations, &mut shapes);
                    }
                }
            }
        }
        if server.dead {
            break;
        }
    }
    let sim_ns = last_activity;
    violations.append(&mut server.violations);
    WorldResult { server, lanes, stats, trace, sim_ns, violations, shapes, cap_hit }
}

/// Sends a reply the server produced for the datagram logged last.
fn send_reply(spec: &WorldSpec, server: &Server, from: usize, reply: Option<Vec<u8>>, q: &mut Queue<Ev>, ch: &mut Ch, stats: &mut Stats, violations: &mut Vec<Violation>, shapes: &mut Vec<u64>) {
    let Some(rb) = reply else { return };
    let c = &spec.clients[from];
    let for_arrival = server.log.len() - 1;
    let rb = if c.via_proxy {
        match proxy_forward(&rb, stats, violations, shapes) {
            Some(b) => b,
            None => return,
        }
    } else {
        rb
    };
    for d in net_send(&c.net, &rb, ch, stats) {
        q.after(d.delay, Ev::ToClient { to: from, bytes: d.bytes, for_arrival, corrupted: d.corrupted });
    }
}

fn apply_outs(outs: Vec<Out>, client: usize, lane: usize, spec: &WorldSpec, q: &mut Queue<Ev>, ch: &mut Ch, stats: &mut Stats) {
    let net = &spec.clients[client].net;
    for o in outs {
        match o {
            Out::Send { bytes, tag } => {
                if tag.copy >= 100 {
                    stats.hit("client.retransmission");
                } else if tag.copy > 0 {
                    stats.hit("fault.client-dup");
                }
                for d in net_send(net, &bytes, ch, stats) {
                    q.after(d.delay, Ev::ToServer { from: client, tag, bytes: d.bytes, corrupted: d.corrupted, net_dup: d.duplicate });
                }
            }
            Out::Timer { after_ns, gen } => q.after(after_ns, Ev::Timer { client, lane, gen }),
            Out::StartAfter { after_ns } => q.after(after_ns, Ev::Start { client, lane }),
            Out::ResumeAfter { after_ns } => q.after(after_ns, Ev::Resume { client, lane }),
        }
    }
}
