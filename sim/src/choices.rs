//! The choice stream: the single source of every decision in a run.
//!
//! `Ch::seeded(seed)` draws from an own xoshiro256** generator (no dependency
//! on the `rand` crate, so a version bump in the cache cannot change
//! histories); `Ch::replay(list)` feeds a stored list (past its end: 0).  Both
//! record what they returned, so that any run can be turned into a replay
//! file and minimised on the list.  Small values mean "simple" everywhere in
//! the scenario builders (0 = no fault, shortest body, first alternative), so
//! that deleting or lowering choices simplifies the scenario.

#[derive(Clone)]
pub struct Xoshiro {
    s: [u64; 4],
}

fn splitmix64(x: &mut u64) -> u64 {
    *x = x.wrapping_add(0x9E37_79B9_7F4A_7C15);
    let mut z = *x;
    z = (z ^ (z >> 30)).wrapping_mul(0xBF58_476D_1CE4_E5B9);
    z = (z ^ (z >> 27)).wrapping_mul(0x94D0_49BB_1331_11EB);
    z ^ (z >> 31)
}

impl Xoshiro {
    pub fn new(seed: u64) -> Self {
        let mut x = seed;
        let s = [
            splitmix64(&mut x),
            splitmix64(&mut x),
            splitmix64(&mut x),
            splitmix64(&mut x),
        ];
        Xoshiro { s }
    }
    #[inline]
    pub fn next(&mut self) -> u64 {
        let result = self.s[1].wrapping_mul(5).rotate_left(7).wrapping_mul(9);
        let t = self.s[1] << 17;
        self.s[2] ^= self.s[0];
        self.s[3] ^= self.s[1];
        self.s[1] ^= self.s[2];
        self.s[0] ^= self.s[3];
        self.s[2] ^= t;
        self.s[3] = self.s[3].rotate_left(45);
        result
    }
}

/// Seed of run `index` in a batch started with `VERIF_SEED = base`.
pub fn run_seed(base: u64, index: u64) -> u64 {
    let mut x = base ^ index.wrapping_mul(0xD6E8_FEB8_6659_FD93);
    splitmix64(&mut x)
}

enum Mode {
    Seeded(Xoshiro),
    Replay { list: Vec<u64>, pos: usize },
}

pub struct Ch {
    mode: Mode,
    /// every value returned so far (after clamping), in order
    pub rec: Vec<u64>,
    /// labels, only kept when `keep_labels`
    pub labels: Vec<&'static str>,
    pub keep_labels: bool,
    /// hard cap on the number of draws in one run (guards against a scenario
    /// builder that loops on the stream); beyond it every draw returns 0
    pub cap: usize,
}

impl Ch {
    pub fn seeded(seed: u64) -> Ch {
        Ch {
            mode: Mode::Seeded(Xoshiro::new(seed)),
            rec: Vec::with_capacity(256),
            labels: Vec::new(),
            keep_labels: false,
            cap: 4_000_000,
        }
    }
    pub fn replay(list: Vec<u64>) -> Ch {
        Ch {
            mode: Mode::Replay { list, pos: 0 },
            rec: Vec::with_capacity(256),
            labels: Vec::new(),
            keep_labels: false,
            cap: 4_000_000,
        }
    }

    /// A value in `0..n` (0 when `n <= 1`).
    pub fn below(&mut self, n: u64, label: &'static str) -> u64 {
        let v = if n <= 1 || self.rec.len() >= self.cap {
            0
        } else {
            match &mut self.mode {
                Mode::Seeded(r) => r.next() % n,
                Mode::Replay { list, pos } => {
                    let v = list.get(*pos).copied().unwrap_or(0);
                    *pos += 1;
                    if v >= n {
                        n - 1
                    } else {
                        v
                    }
                }
            }
        };
        // a draw with n <= 1 still occupies a slot, so that replay positions
        // do not depend on n
        if n <= 1 {
            if let Mode::Replay { pos, .. } = &mut self.mode {
                *pos += 1;
            }
        }
        self.rec.push(v);
        if self.keep_labels {
            self.labels.push(label);
        }
        v
    }

    /// true with probability num/den; the value 0 always means `false`.
    pub fn chance(&mut self, num: u64, den: u64, label: &'static str) -> bool {
        let v = self.below(den, label);
        v >= den.saturating_sub(num) && num > 0
    }

    /// inclusive range
    pub fn range(&mut self, lo: u64, hi: u64, label: &'static str) -> u64 {
        debug_assert!(hi >= lo);
        lo + self.below(hi - lo + 1, label)
    }

    pub fn pick<'a, T>(&mut self, xs: &'a [T], label: &'static str) -> &'a T {
        let i = self.below(xs.len() as u64, label) as usize;
        &xs[i]
    }

    /// index drawn with the given weights (index 0 should be the simplest)
    pub fn weighted(&mut self, w: &[u32], label: &'static str) -> usize {
        let total: u64 = w.iter().map(|&x| x as u64).sum();
        let mut v = self.below(total.max(1), label);
        for (i, &x) in w.iter().enumerate() {
            if v < x as u64 {
                return i;
            }
            v -= x as u64;
        }
        0
    }

    pub fn bytes(&mut self, len: usize, label: &'static str) -> Vec<u8> {
        // one draw per 7 bytes keeps the lists short
        let mut out = Vec::with_capacity(len);
        while out.len() < len {
            let mut v = self.below(1 << 56, label);
            for _ in 0..7 {
                if out.len() < len {
                    out.push((v & 0xFF) as u8);
                    v >>= 8;
                }
            }
        }
        out
    }
}

/// FNV-1a, used for event-log hashes and distinctness measures.
#[derive(Clone, Copy)]
pub struct Fnv(pub u64);
impl Default for Fnv {
    fn default() -> Self {
        Fnv(0xcbf2_9ce4_8422_2325)
    }
}
impl Fnv {
    #[inline]
    pub fn byte(&mut self, b: u8) {
        self.0 ^= b as u64;
        self.0 = self.0.wrapping_mul(0x0000_0100_0000_01B3);
    }
    #[inline]
    pub fn bytes(&mut self, bs: &[u8]) {
        for &b in bs {
            self.byte(b);
        }
        // length terminator so that ("ab","c") != ("a","bc")
        self.u64(bs.len() as u64);
    }
    #[inline]
    pub fn u64(&mut self, v: u64) {
        for b in v.to_le_bytes() {
            self.byte(b);
        }
    }
}
