//! Family `expiry`: cached block-transfer state on the simulated clock.  An
//! observed transfer (download with a cached response, or upload with a
//! buffered prefix) is paused for idle gaps drawn relative to the configured
//! expiry (far below, expiry-1ns, expiry, expiry+1ns, 4x, 1000x) while noise
//! clients issue up to 2000 requests on other keys and other endpoints
//! abandon uploads.  A tiny reference model (key -> last touch) says, exactly
//! and in both directions, what must be alive and what must be gone.
//! Decides C20.
use crate::choices::{Ch, Fnv};
use crate::common::*;
use crate::des::*;
use crate::fam_block;
use crate::gen::*;
use crate::server::*;
use crate::world::*;
use coap_lite::MessageType;
use std::collections::BTreeMap;

const LAT_MS: u64 = 1;

struct Plan {
    spec: WorldSpec,
    expiry: u64,
    upload: bool,
    size: usize,
    body_len: usize,
    body_id: u64,
}

fn gen_plan(ch: &mut Ch) -> Plan {
    let expiry = match ch.weighted(&[35, 18, 18, 12, 7, 4, 3, 3], "e.expiry") {
        0 => (20 + ch.below(41, "e.expiry.ms")) * MS,
        1 => SEC,
        2 => 120 * SEC,
        3 => 3600 * SEC,
        4 => 49 * 24 * 3600 * SEC,
        // beyond 2^32 milliseconds (49.7 days), and a fractional second
        5 => 60 * 24 * 3600 * SEC,
        6 => 400 * 24 * 3600 * SEC,
        _ => 1900 * MS,
    };
    let upload = ch.below(2, "e.upload") == 1;
    let szx = ch.below(3, "e.szx") as u8;
    let size = 16usize << szx;
    let nblocks = 3 + ch.below(6, "e.nblocks") as usize;
    let body_len = nblocks * size - ch.below(size as u64, "e.tail") as usize;
    let path = vec![seg("obs")];
    let mut resources = BTreeMap::new();
    resources.insert(path.clone(), ResSpec { lens: vec![body_len], opts: vec![], up_reply_lens: vec![0], own_block2: None, code: None });
    resources.insert(vec![seg("noise")], ResSpec { lens: vec![3], opts: vec![], up_reply_lens: vec![0], own_block2: None, code: None });
    // a representation that is always served block-wise
    resources.insert(vec![seg("big")], ResSpec { lens: vec![3000], opts: vec![], up_reply_lens: vec![0], own_block2: None, code: None });
    // idle gaps between consecutive arrivals of the observed transfer
    let nex = (body_len + size - 1) / size;
    let mut gaps = Vec::new();
    let mut total_gap: u64 = 0;
    let mut gap_windows: Vec<(u64, u64)> = Vec::new();
    let long_chain = ch.chance(1, 6, "e.long-chain");
    for j in 1..nex {
        let sel = if long_chain { 20 } else { ch.weighted(&[40, 10, 8, 8, 8, 8, 8, 5, 5], "e.gap.kind") };
        let idle = match sel {
            0 => 0,
            1 => expiry / 10,
            2 => expiry / 2,
            3 => expiry - 1,
            4 => expiry,
            5 => expiry + 1,
            6 => expiry.saturating_mul(4),
            7 => expiry.saturating_mul(1000).min(2000 * 24 * 3600 * SEC).max(expiry.saturating_mul(2)),
            8 => expiry - 1 - ch.below((expiry / 4).max(1), "e.gap.below"),
            // every individual gap below the expiry, total far above it
            _ => expiry * 6 / 10,
        };
        if idle > 2 * LAT_MS * MS {
            let think = idle - 2 * LAT_MS * MS;
            gaps.push((j as u32, think));
            gap_windows.push((total_gap, think));
            total_gap += think;
        }
    }
    let budget = {
        // leave room for exactly this block size: overhead + 28 + (size-16) .. +15
        let t = default_transfer(if upload { 3 } else { 1 }, path.clone(), TKind::Plain { body_id: 0, payload_len: 0 });
        let ov = if upload { request_overhead(&t, Some((200, true, szx)), None) } else { response_overhead(4, &[], false).max(request_overhead(&t, None, Some((200, false, szx)))) };
        ov + 12 + size + ch.below(8, "e.budget.slack") as usize
    };
    let body_id = ch.below(1 << 40, "e.body");
    let mut t = default_transfer(
        if upload { 3 } else { 1 },
        path.clone(),
        if upload { TKind::Upload { body_id, len: body_len, szx, dups: vec![], abandon_after: None, adapt: false } } else { TKind::Download { early: None, reduce: None } },
    );
    t.gaps = gaps;
    t.pre_gap_ns = 10 * MS;
    let lat = NetCfg { base_ms: LAT_MS, jitter: false, ..Default::default() };
    // a download may see its requests duplicated by the network (the model
    // works on arrival times, so duplicates are just more touches)
    let mut obs_net = lat.clone();
    if !upload && ch.chance(1, 3, "e.dup-on-observed-link") {
        obs_net.dup_pm = 150 + ch.below(300, "e.dup_pm");
    }
    let mut clients = vec![ClientSpec {
        ep: 100,
        // the timeout only matters for lost messages; there are none here
        lanes: vec![LaneSpec { transfers: vec![t], timeout_ms: 400 * 24 * 3600 * 1000 }],
        mid0: ch.below(65536, "e.mid0") as u16,
        tok_seed: ch.below(1 << 40, "e.tok"),
        net: obs_net,
        via_proxy: false,
    }];
    // noise on other keys, spread over the observed transfer's lifetime
    let noise_n = match ch.weighted(&[25, 35, 25, 15], "e.noise") {
        0 => 0,
        1 => 1 + ch.below(20, "e.noise.few") as usize,
        2 => 20 + ch.below(300, "e.noise.mid") as usize,
        _ => 1000 + ch.below(1001, "e.noise.many") as usize,
    };
    let mut many_keys = false;
    if noise_n > 0 {
        let span = (total_gap + 40 * MS).max(1);
        let step = (span / noise_n as u64).max(1);
        // few hot keys, or one distinct key per request (a capacity-bounded
        // cache only shows under many distinct keys)
        let nkeys = if ch.chance(3, 10, "e.noise.distinct") { noise_n } else { 1 + ch.below(12, "e.noise.keys") as usize };
        many_keys = nkeys > 64;
        let dgs: Vec<Vec<u8>> = (0..noise_n)
            .map(|i| {
                let p = vec![seg("noise"), format!("{}", i % nkeys).into_bytes()];
                build_request(1, MessageType::NonConfirmable, i as u16, &[(i & 0xFF) as u8, (i >> 8) as u8], &p, &[], None, None, &[])
            })
            .collect();
        let mut nt = default_transfer(1, vec![], TKind::Raw { datagrams: dgs, gap_ns: step });
        nt.tag_kind = TagKind::Noise;
        nt.pre_gap_ns = 5 * MS;
        clients.push(ClientSpec { ep: 900, lanes: vec![LaneSpec { transfers: vec![nt], timeout_ms: 1000 }], mid0: 0, tok_seed: 1, net: lat.clone(), via_proxy: false });
    }
    // the observed endpoint itself uses the same path with other methods in
    // between (other keys: the method is part of the key)
    if ch.chance(1, 3, "e.same-endpoint-other-method") {
        let n = 1 + ch.below(3, "e.som.n") as usize;
        let methods: &[u8] = if upload { &[1, 2, 5, 4] } else { &[3, 2, 4, 6] };
        let dgs: Vec<Vec<u8>> = (0..n)
            .map(|i| {
                let m = methods[ch.below(methods.len() as u64, "e.som.method") as usize];
                let pl: Vec<u8> = if m == 1 || m == 4 || m == 5 { vec![] } else { vec![0x33; 5] };
                // ... or a Block1 block far beyond anything buffered, on another
                // path (refused by the handler: must not cost other keys their state)
                if ch.chance(1, 4, "e.som.far-block1") {
                    let p3 = vec![seg("elsewhere")];
                    return build_request(3, MessageType::NonConfirmable, 42000 + i as u16, &[0xED, i as u8], &p3, &[], Some((4095, true, 6)), None, &[0x66; 16]);
                }
                // ... or the start of another block-wise download (left
                // unfinished) on another path
                if ch.chance(1, 4, "e.som.other-download") {
                    return build_request(1, MessageType::NonConfirmable, 43000 + i as u16, &[0xEC, i as u8], &[seg("big")], &[], None, None, &[]);
                }
                // ... or the same method on the path with a trailing empty
                // segment ("/obs/" next to "/obs"): another key as well
                if ch.chance(1, 3, "e.som.trailing-slash") {
                    let p2 = vec![seg("obs"), seg("")];
                    let own = if upload { 3u8 } else { 1u8 };
                    let pl2: Vec<u8> = if upload { vec![0x44; 4] } else { vec![] };
                    return build_request(own, MessageType::NonConfirmable, 41000 + i as u16, &[0xEF, i as u8], &p2, &[], None, None, &pl2);
                }
                build_request(m, MessageType::NonConfirmable, 40000 + i as u16, &[0xEE, i as u8], &path, &[], None, None, &pl)
            })
            .collect();
        let mut st = default_transfer(1, vec![], TKind::Raw { datagrams: dgs, gap_ns: (total_gap / (n as u64 + 1)).max(MS) });
        st.tag_kind = TagKind::Noise;
        st.pre_gap_ns = 12 * MS + ch.below(total_gap / 2 + 1, "e.som.t");
        clients.push(ClientSpec { ep: 100, lanes: vec![LaneSpec { transfers: vec![st], timeout_ms: 1000 }], mid0: 0, tok_seed: 77, net: lat.clone(), via_proxy: false });
    }
    // abandoned transfers by other endpoints (reclamation clause)
    let nab = if ch.chance(1, 2, "e.abandoned") { 1 + ch.below(50, "e.nab") as usize } else { 0 };
    for i in 0..nab {
        let aszx = ch.below(7, "e.ab.szx") as u8;
        let asize = 16usize << aszx;
        let blocks = 1 + ch.below(3, "e.ab.blocks") as usize;
        let alen = ((blocks + 1) * asize).min(10 * 1024);
        let mut at = default_transfer(3, vec![seg("ab"), format!("{}", i % 5).into_bytes()], TKind::Upload { body_id: 7000 + i as u64, len: alen, szx: aszx, dups: vec![], abandon_after: Some(blocks as u32), adapt: false });
        // some start right away, some in the middle of the observed transfer
        at.pre_gap_ns = if ch.below(2, "e.ab.when") == 0 { ch.below(8, "e.ab.t0") * MS } else { ch.below(total_gap + 1, "e.ab.t") };
        // abandoned downloads too: a GET whose response is fragmented
        if ch.chance(1, 4, "e.ab.download") {
            at = default_transfer(1, vec![seg("obs")], TKind::Upload { body_id: 0, len: 0, szx: 0, dups: vec![], abandon_after: None, adapt: false });
            at.kind = TKind::Raw { datagrams: vec![build_request(1, MessageType::Confirmable, i as u16, &[9, i as u8], &[seg("obs")], &[], None, None, &[])], gap_ns: MS };
            at.tag_kind = TagKind::Noise;
            at.pre_gap_ns = ch.below(total_gap + 1, "e.ab.t");
        }
        clients.push(ClientSpec { ep: 200 + i as Ep, lanes: vec![LaneSpec { transfers: vec![at], timeout_ms: 400 * 24 * 3600 * 1000 }], mid0: 0, tok_seed: 5 + i as u64, net: lat.clone(), via_proxy: false });
    }
    let _ = gap_windows;
    // the application may take simulated time (split-phase): exchanges on
    // other keys are processed while one is at the application
    let slow_app_pm = if ch.chance(1, 3, "e.slow-app") { 100 + ch.below(700, "e.slow-app.pm") } else { 0 };
    let spec = WorldSpec {
        server: ServerCfg { budget, expiry_ns: expiry, check_wire: false, snapshots: false, feed_all_types: false, record_held: true, held_every: if many_keys { 97 } else { 1 }, held_always_from: 100 },
        resources,
        clients,
        max_events: 40_000,
        slow_app_pm,
    };
    Plan { spec, expiry, upload, size, body_len, body_id }
}

type MKey = (Ep, u8, Vec<String>);

fn mkey(a: &Arrival) -> Option<MKey> {
    let k = a.key.as_ref()?;
    let path: Option<Vec<String>> = k.1.iter().map(|s| String::from_utf8(s.clone()).ok()).collect();
    Some((a.from, method_ord(k.0), path.unwrap_or_default()))
}

pub fn run(ch: &mut Ch, verbose: bool) -> Outcome {
    let plan = gen_plan(ch);
    let mut r = run_world(&plan.spec, ch, verbose);
    let mut out = Outcome::new();
    out.faulty_cfg = true;
    let mut stats = std::mem::take(&mut r.stats);
    let mut viol = std::mem::take(&mut r.violations);
    let e = plan.expiry;
    let log = &r.server.log;

    // canary: the handler must read the clock the simulator owns
    if log.iter().any(|a| a.is_request) && sn_fake_clock::FakeClock::reads() + crate::clockshim::reads() == 0 {
        out.harness_error = Some("the block handler did not read the simulated clock during a run: its time source is neither lru_time_cache's clock type nor the C library's clock_gettime, so simulated time is invisible to it (C20 cannot be decided by this harness)".into());
        return out;
    }

    // ---- reference model: key -> last touch ---------------------------
    let mut last: BTreeMap<MKey, u64> = BTreeMap::new();
    let held_by_seq: BTreeMap<usize, &Vec<(Ep, u8, Vec<String>)>> = r.server.held_log.iter().map(|(s, h)| (*s, h)).collect();
    let mut max_purged = 0usize;
    let mut prev_held = 0usize;
    // Every handler call touches its key: intercept_request when the datagram
    // is taken up, intercept_response when the application is done (later, in
    // split-phase).  Touches in time order; the snapshot belongs to the touch
    // that ends the exchange.
    // which keys hold block-transfer state (an upload buffer in progress or
    // an unfinished cached response), as far as the replies tell: retention is
    // only demanded for those - a key that was merely used by a plain
    // exchange has no block-transfer state to retain
    // per exchange: what it does to "this key holds block-transfer state"
    // (Some(true) sets it, Some(false) clears it, None leaves it as it is)
    let mut state_after: BTreeMap<usize, (MKey, Option<bool>)> = BTreeMap::new();
    for a in log.iter() {
        if !a.is_request || a.ireq.is_none() {
            continue;
        }
        let Some(k) = mkey(a) else { continue };
        let mut tr: Option<bool> = None;
        if let Some((_, more, _)) = a.block1 {
            // a non-final block that was accepted leaves a buffer; the final one takes it
            if more && a.ireq == Some(HOut::Handled) {
                tr = Some(true);
            } else if !more {
                tr = Some(false);
            }
        }
        if let Some(rb) = a.reply.as_ref() {
            if let Some(f) = crate::refparse::accept(rb) {
                if let Some((_, more, _)) = f.block(23) {
                    if a.app.is_some() {
                        // a fresh response is cached only if blocks remain
                        if more {
                            tr = Some(true);
                        }
                    } else {
                        // a block out of the cache: released with the final one
                        tr = Some(more || a.block1.map_or(false, |b| b.1));
                    }
                }
            }
        }
        state_after.insert(a.seq, (k, tr));
    }
    let mut stateful: BTreeMap<MKey, bool> = BTreeMap::new();
    // keys whose upload buffer is handed over when the datagram is taken up
    // (final Block1 block): no state left from then on, also while the
    // exchange is still at the application
    let mut blank_at_begin: std::collections::BTreeSet<usize> = std::collections::BTreeSet::new();
    let mut touches: Vec<(u64, usize, MKey, Option<usize>)> = Vec::new();
    for a in log.iter() {
        if !a.is_request || a.ireq.is_none() {
            continue;
        }
        let Some(k) = mkey(a) else { continue };
        if a.app.is_some() && a.time_done > a.time {
            if a.block1.map_or(false, |b| !b.1) {
                blank_at_begin.insert(a.tick_begin as usize);
            }
            touches.push((a.time, a.tick_begin as usize, k.clone(), None));
            touches.push((a.time_done, a.tick_done as usize, k, Some(a.seq)));
            stats.hit("probe.c20.split-phase-exchange");
        } else {
            touches.push((a.time_done, a.tick_done as usize, k, Some(a.seq)));
        }
    }
    // the order in which the server made the calls
    touches.sort_by_key(|x| x.1);
    for (now, ord, k, snap) in touches.iter() {
        let now = *now;
        // a key that comes back after its expiry (or at exactly the expiry:
        // either way) starts without block-transfer state
        match last.get(k) {
            Some(t) if now - *t < e => {}
            _ => {
                stateful.insert(k.clone(), false);
            }
        }
        last.insert(k.clone(), now);
        if blank_at_begin.contains(ord) {
            stateful.insert(k.clone(), false);
        }
        if let Some((sk, Some(st))) = snap.and_then(|sq| state_after.get(&sq)) {
            stateful.insert(sk.clone(), *st);
        }
        // compare with what the handler physically holds after this call
        if let Some(held) = snap.and_then(|sq| held_by_seq.get(&sq)) {
            {
                stats.hit("c20.held-snapshots-compared");
                let held_set: std::collections::BTreeSet<&MKey> = held.iter().collect();
                for (mk, t) in &last {
                    let idle = now - t;
                    let is_held = held_set.contains(mk);
                    if idle < e && !is_held && stateful.get(mk).copied().unwrap_or(false) {
                        viol.push(Violation::new(
                            "C20",
                            "retained",
                            format!("state of {:?} idle for {} ns < expiry {} ns is gone after a call on {:?} (snapshot)", mk, idle, e, k),
                        ).with_sig("retained-snapshot"));
                    }
                    if idle > e && is_held {
                        viol.push(Violation::new(
                            "C20",
                            "reclaimed",
                            format!("state of {:?} idle for {} ns > expiry {} ns is still held after a call on {:?}", mk, idle, e, k),
                        ));
                    }
                    if idle == e {
                        stats.hit("probe.c20.snapshot-at-exact-expiry");
                    }
                }
                for h in held.iter() {
                    if !last.contains_key(h) {
                        viol.push(Violation::new("C20", "reclaimed", format!("handler holds an entry {:?} no request ever touched", h)));
                    }
                }
                if plan.spec.server.held_every <= 1 && prev_held + 1 > held.len() {
                    max_purged = max_purged.max(prev_held + 1 - held.len());
                }
                prev_held = held.len();
            }
        }
        // forget what the model no longer has to remember (long expired)
        last.retain(|_, t| now - *t <= e);
    }
    if max_purged >= 10 {
        stats.hit("probe.c20.purge-of-10-or-more-entries-in-one-call");
    }

    // ---- the observed transfer -----------------------------------------
    let obs: Vec<&Arrival> = log.iter().filter(|a| a.tag.client == 0 && a.tag.kind == TagKind::Coop && a.is_request).collect();
    if log.iter().any(|a| a.from == 100 && a.tag.kind == TagKind::Noise) {
        stats.hit("probe.c20.same-endpoint-other-method-in-between");
    }
    let mut abstract_h = Fnv::default();
    abstract_h.byte(plan.upload as u8);
    let mut nontrivial = false;
    if !plan.upload {
        // download: follow-ups served from the cache while alive, passed to
        // the application once expired
        let mut cur: Option<(u64, usize)> = None; // (body id, len) of the cached version
        let mut open = false;
        let mut prev_t: Option<u64> = None;
        for (j, a) in obs.iter().enumerate() {
            let idle = prev_t.map(|p| a.time.saturating_sub(p));
            prev_t = Some(a.time_done);
            if let Some(call) = &a.app {
                cur = Some((call.body_out_id, call.body_out_len));
            }
            if j > 0 && a.block2.is_some() && open {
                let idle = idle.unwrap();
                let class = if idle < e { 0 } else if idle > e { 2 } else { 1 };
                abstract_h.byte(class);
                abstract_h.u64(bucket(idle, e));
                match class {
                    0 => {
                        stats.hit("c20.retained.checked");
                        nontrivial |= idle > 0;
                        if a.app.is_some() || a.ireq != Some(HOut::Handled) {
                            viol.push(Violation::new(
                                "C20",
                                "retained",
                                format!("follow-up block request after {} ns idle (expiry {} ns) was not served from the cache (ireq {:?}, application invoked: {})", idle, e, a.ireq, a.app.is_some()),
                            ));
                        }
                    }
                    2 => {
                        stats.hit("c20.expired-download.checked");
                        nontrivial = true;
                        if a.app.is_none() {
                            viol.push(Violation::new(
                                "C20",
                                "expired-download",
                                format!("follow-up block request after {} ns idle (expiry {} ns) was still served from the cache (ireq {:?})", idle, e, a.ireq),
                            ));
                        }
                    }
                    _ => stats.hit("probe.c20.gap-exactly-expiry"),
                }
                if idle + 1 == e {
                    stats.hit("probe.c20.gap-expiry-minus-1ns");
                }
                if idle == e + 1 {
                    stats.hit("probe.c20.gap-expiry-plus-1ns");
                }
            }
            // what was served must be the right bytes of the current version
            if let (Some(rb), Some((id, len))) = (a.reply.as_ref(), cur) {
                if let Some(p) = crate::refparse::accept(rb) {
                    if p.code == 0x45 {
                        if let Some((num, more, szx)) = p.block(23) {
                            let body = gen_body(id, len);
                            let size = szx_size(szx);
                            let off = num as usize * size;
                            let end = (off + size).min(body.len());
                            if off <= body.len() && p.payload != body[off..end] {
                                viol.push(Violation::new("C20", "retained", format!("block {} served after {:?} ns idle does not hold the bytes of the response it belongs to", num, idle)).with_sig("retained-bytes"));
                            }
                            open = more;
                        }
                    }
                }
            }
        }
    } else {
        // upload: alive -> the final body includes the pre-gap blocks;
        // expired -> the pre-gap data is never used again
        let body = gen_body(plan.body_id, plan.body_len);
        let mut prev_t: Option<u64> = None;
        let mut restart_at: Option<usize> = None; // block index of the last must-expire gap
        let mut either = false;
        for (j, a) in obs.iter().enumerate() {
            let idle = prev_t.map(|p| a.time.saturating_sub(p));
            prev_t = Some(a.time_done);
            if j > 0 {
                let idle = idle.unwrap();
                abstract_h.byte(if idle < e { 0 } else if idle > e { 2 } else { 1 });
                abstract_h.u64(bucket(idle, e));
                if idle > e {
                    restart_at = Some(j);
                } else if idle == e {
                    either = true;
                    stats.hit("probe.c20.gap-exactly-expiry");
                }
                if idle + 1 == e {
                    stats.hit("probe.c20.gap-expiry-minus-1ns");
                }
                if idle == e + 1 {
                    stats.hit("probe.c20.gap-expiry-plus-1ns");
                }
                nontrivial |= idle > 0;
            }
            if let Some(call) = &a.app {
                // the final block was handed over
                if either {
                    stats.hit("c20.upload.either");
                } else {
                    match restart_at {
                        None => {
                            stats.hit("c20.retained.checked");
                            if call.body_in != body {
                                viol.push(Violation::new(
                                    "C20",
                                    "retained",
                                    format!("upload whose gaps all stayed below the expiry {} ns delivered {} bytes instead of the {} sent (pre-gap blocks lost?)", e, call.body_in.len(), body.len()),
                                ));
                            }
                        }
                        Some(jr) => {
                            stats.hit("c20.expired-upload.checked");
                            let pre = (jr * plan.size).min(call.body_in.len()).min(body.len());
                            let same = (0..pre).filter(|&i| call.body_in[i] == body[i]).count();
                            if pre > 0 && same * 2 >= pre {
                                viol.push(Violation::new(
                                    "C20",
                                    "expired-upload",
                                    format!("upload continued after an idle gap above the expiry {} ns: the delivered body still holds {} of {} pre-gap bytes of the expired buffer", e, same, pre),
                                ));
                            }
                            // what arrived after the gap is there
                            let post_ok = call.body_in.len() == body.len() && call.body_in[pre..] == body[pre..];
                            if !post_ok {
                                viol.push(Violation::new("C20", "expired-upload", format!("upload continued from an empty buffer delivered wrong post-gap data ({} vs {} bytes)", call.body_in.len(), body.len())).with_sig("post-gap-data"));
                            }
                        }
                    }
                }
            }
        }
    }
    if nontrivial {
        out.nontrivial.push(abstract_h.0);
    }
    {
        let mut prev: Option<u64> = None;
        for a in obs.iter() {
            if let Some(p) = prev {
                let idle = a.time.saturating_sub(p);
                if idle > e {
                    stats.hit("fault.time-jump-beyond-expiry");
                } else if idle > 4 * LAT_MS * MS {
                    stats.hit("fault.idle-below-expiry");
                }
            }
            prev = Some(a.time);
        }
    }
    for l in &r.lanes {
        for res in &l.results {
            if res.status == TStatus::Abandoned {
                stats.hit("fault.client-crash");
            }
        }
    }
    let noise = log.iter().filter(|a| a.tag.kind == TagKind::Noise).count();
    stats.add("fault.noise-request", noise as u64);
    if noise >= 1000 {
        stats.hit("probe.c20.1000-or-more-intervening-requests");
    }
    {
        let mut ks = std::collections::BTreeSet::new();
        for a in log.iter().filter(|a| a.tag.kind == TagKind::Noise) {
            if let Some(k) = &a.key {
                ks.insert((a.from, k.clone()));
            }
        }
        if ks.len() >= 1000 {
            stats.hit("probe.c20.1000-or-more-distinct-other-keys");
        }
    }
    out.violations = viol;
    out.hash = r.trace.h.0;
    out.sim_ns = r.sim_ns;
    out.trace = std::mem::take(&mut r.trace.lines);
    if verbose {
        let mut s = fam_block::sample_json(&plan.spec, &r);
        s.put("observed_transfer", crate::json::J::s(format!("{} of {} bytes in {}-byte blocks", if plan.upload { "upload" } else { "download" }, plan.body_len, plan.size)));
        out.sample = Some(s);
    }
    out.stats = stats;
    out
}

fn bucket(idle: u64, e: u64) -> u64 {
    if idle == 0 {
        0
    } else if idle * 10 < e {
        1
    } else if idle * 2 < e {
        2
    } else if idle + 1 < e {
        3
    } else if idle + 1 == e {
        4
    } else if idle == e {
        5
    } else if idle == e + 1 {
        6
    } else if idle <= e.saturating_mul(4) {
        7
    } else {
        8
    }
}
