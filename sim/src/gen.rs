//! Scenario-building helpers shared by the block-wise families.  Everything is
//! drawn from the choice stream; index 0 of every alternative is the simplest.
use crate::choices::Ch;
use crate::des::NetCfg;
use crate::server::ResSpec;
use crate::world::*;
use coap_lite::MessageType;

pub fn seg(s: &str) -> Vec<u8> {
    s.as_bytes().to_vec()
}

/// Candidate resource paths (raw Uri-Path segments).  Includes paths that
/// differ only in segmentation, prefixes of one another, the empty path and a
/// single empty segment.
pub fn path_pool() -> Vec<Vec<Vec<u8>>> {
    vec![
        vec![seg("a")],
        vec![seg("a"), seg("b")],
        vec![seg("a/b")],
        vec![seg("data")],
        vec![seg("x"), seg("y"), seg("z")],
        vec![],
        vec![seg("")],
        vec![seg("sensors"), seg("temperature-with-a-long-name")],
        vec![seg("é"), seg("ü")],
        vec![seg("p"), "s".repeat(270).into_bytes()],
        vec![seg("twelve-bytes"), seg("thirteenbytes"), seg("fourteen-bytes")],
    ]
}

/// Body length biased towards block multiples +-1, 0, 1 and occasionally large.
pub fn gen_len(ch: &mut Ch, max: usize) -> usize {
    let l = match ch.weighted(&[30, 8, 8, 40, 10, 4], "len.mode") {
        0 => {
            let s = 16usize << ch.below(4, "len.szx");
            let k = ch.below(5, "len.k") as usize;
            let d = ch.below(3, "len.d") as i64 - 1;
            (k * s) as i64 + d
        }
        1 => 0,
        2 => 1,
        3 => {
            let s = 16usize << ch.below(7, "len.szx");
            let k = ch.below(7, "len.k") as usize;
            let d = ch.below(5, "len.d") as i64 - 2;
            (k * s) as i64 + d
        }
        4 => ch.below(600, "len.rnd") as i64,
        _ => ch.below(max as u64 + 1, "len.big") as i64,
    };
    (l.max(0) as usize).min(max)
}

/// Option sets an application may put on its replies; chosen to move the
/// overhead across the 13 / 269 codec thresholds.
pub fn gen_resp_opts(ch: &mut Ch) -> Vec<(u16, Vec<Vec<u8>>)> {
    match ch.weighted(&[35, 15, 10, 10, 10, 10, 10, 6, 8], "ropts") {
        // a notification-style reply: Observe, Max-Age, ETag
        8 => vec![(6, vec![vec![0x01, 0x02]]), (14, vec![vec![30]]), (4, vec![vec![0xAA]])],
        0 => vec![],
        1 => vec![(4, vec![vec![0xE7, 0x01, 0x02, 0x03]]), (12, vec![vec![42]])],
        2 => vec![(8, vec![b"loc".to_vec(), b"ation".to_vec(), b"p".to_vec()])],
        3 => vec![(14, vec![vec![0x01, 0x2C]])],
        4 => vec![(2049, vec![vec![1, 2, 3]]), (65001, vec![vec![9; 5]])],
        5 => {
            let n = 12 + ch.below(4, "ropts.len") as usize; // 12..15 around the 13 threshold
            vec![(4, vec![vec![0xAB; 8]]), (20, vec![vec![0x61; n]])]
        }
        6 => {
            let n = 266 + ch.below(6, "ropts.len") as usize; // around the 269 threshold
            vec![(20, vec![vec![0x62; n]]), (12, vec![vec![0]])]
        }
        _ => {
            let n = 100 + ch.below(101, "ropts.len") as usize; // overhead 117..224
            vec![(20, vec![vec![0x63; n]])]
        }
    }
}

/// Extra request options (elective / repeatable, semantically inert for the
/// stub application) that vary the request overhead.
pub fn gen_req_opts(ch: &mut Ch) -> Vec<(u16, Vec<u8>)> {
    match ch.weighted(&[40, 10, 10, 6, 6, 6, 6, 4, 4, 4, 4], "qopts") {
        0 => vec![],
        1 => vec![(3, b"host.example".to_vec())],
        2 => {
            if ch.below(3, "qopts.q") == 0 {
                // a value that starts with a zero byte
                vec![(15, vec![0, 1, 2]), (15, vec![0])]
            } else {
                vec![(15, b"q=1".to_vec()), (15, b"verbose".to_vec())]
            }
        }
        // No-Response with its natural values (bit mask of 2.xx / 4.xx / 5.xx)
        3 => vec![(258, vec![*ch.pick(&[2u8, 0, 8, 16, 24, 26], "qopts.noresp")])],
        4 => vec![(17, vec![60]), (2049, vec![7; 3])],
        5 => {
            let n = 11 + ch.below(5, "qopts.len") as usize;
            vec![(15, vec![0x71; n])]
        }
        6 => {
            let n = 265 + ch.below(8, "qopts.len") as usize;
            vec![(15, vec![0x72; n])]
        }
        // a proxy request: Proxy-Uri / Proxy-Scheme next to the Uri-* options
        7 => {
            if ch.below(2, "qopts.proxy") == 0 {
                vec![(35, b"coap://h/x".to_vec())]
            } else {
                vec![(39, b"coap".to_vec()), (3, b"h".to_vec())]
            }
        }
        // Observe (register) on a block-wise GET, Size1 / Size2 hints
        8 => vec![(6, vec![])],
        9 => {
            if ch.below(2, "qopts.size") == 0 {
                vec![(60, vec![*ch.pick(&[5u8, 0, 200], "qopts.size1")])]
            } else {
                vec![(28, vec![])]
            }
        }
        // 100-200 bytes: overheads in the range where a budget between 1153
        // and 1280 still admits a 1024-byte block
        _ => {
            let n = 100 + ch.below(101, "qopts.len") as usize;
            vec![(15, vec![0x75; n])]
        }
    }
}

pub fn gen_resource(ch: &mut Ch, max_len: usize) -> ResSpec {
    let nv = 1 + ch.below(3, "res.nver") as usize;
    let lens = (0..nv).map(|_| gen_len(ch, max_len)).collect();
    let up = (0..nv).map(|_| if ch.chance(2, 5, "res.upreply") { gen_len(ch, max_len.min(3000)) } else { 0 }).collect();
    // now and then the application answers with an error code and a long body
    let code = if ch.chance(1, 12, "res.errcode") { Some(*ch.pick(&[0x84u8, 0xA0, 0x80, 0x9D], "res.errcode.v")) } else { None };
    ResSpec { lens, opts: gen_resp_opts(ch), up_reply_lens: up, own_block2: None, code }
}

/// Swarm-style network: many runs have no fault, many have only one kind.
pub fn gen_net(ch: &mut Ch, allow_faults: bool) -> NetCfg {
    let base_ms = 1 + ch.below(40, "net.base");
    let mut n = NetCfg { base_ms, jitter: ch.below(2, "net.jit") == 1, ..Default::default() };
    if !allow_faults {
        return n;
    }
    match ch.weighted(&[40, 12, 12, 12, 24], "net.swarm") {
        0 => {}
        1 => n.drop_pm = 10 + ch.below(140, "net.drop_pm"),
        2 => n.dup_pm = 10 + ch.below(140, "net.dup_pm"),
        3 => n.delay_pm = 10 + ch.below(140, "net.delay_pm"),
        _ => {
            if ch.below(2, "net.on.drop") == 1 {
                n.drop_pm = 5 + ch.below(80, "net.drop_pm");
            }
            if ch.below(2, "net.on.dup") == 1 {
                n.dup_pm = 5 + ch.below(80, "net.dup_pm");
            }
            if ch.below(2, "net.on.delay") == 1 {
                n.delay_pm = 5 + ch.below(80, "net.delay_pm");
            }
        }
    }
    n
}

pub fn default_transfer(method: u8, path: Vec<Vec<u8>>, kind: TKind) -> TransferSpec {
    TransferSpec {
        method,
        path,
        con: true,
        token_len: 4,
        token_vary: false,
        b2_more: false,
        stop_after: None,
        extra: vec![],
        kind,
        probe: Probe::None,
        pre_gap_ns: 0,
        gaps: vec![],
        lose_replies: vec![],
        tag_kind: crate::server::TagKind::Coop,
    }
}

/// Encoded size, without payload, of the first request of a transfer (used to
/// place the budget relative to the overhead).
pub fn request_overhead(t: &TransferSpec, b1: Option<(u16, bool, u8)>, b2: Option<(u16, bool, u8)>) -> usize {
    let token = vec![0u8; t.token_len];
    build_request(t.method, MessageType::Confirmable, 0, &token, &t.path, &t.extra, b1, b2, &[]).len()
}

/// Predicted encoded size, without payload, of the application's reply.
pub fn response_overhead(token_len: usize, opts: &[(u16, Vec<Vec<u8>>)], with_block1: bool) -> usize {
    use coap_lite::block_handler::BlockValue;
    use coap_lite::{CoapOption, Packet};
    let mut p = Packet::new();
    p.set_token(vec![0u8; token_len]);
    for (n, vals) in opts {
        for v in vals {
            p.add_option(CoapOption::from(*n), v.clone());
        }
    }
    if with_block1 {
        p.add_option_as(CoapOption::Block1, BlockValue { num: 1, more: false, size_exponent: 2 });
    }
    crate::server::ref_encode(&p).len()
}

/// Budget drawn relative to an overhead so that the interesting region is hit.
pub fn gen_budget(ch: &mut Ch, ov: usize) -> usize {
    match ch.weighted(&[30, 25, 20, 15, 10, 5, 6, 4], "budget.mode") {
        // far above any datagram (a server that leaves fragmentation to lower layers)
        7 => *ch.pick(&[2048usize, 4096, 4200, 8192, 64_000, 65_535, 1 << 20], "budget.large"),
        0 => 1152,
        1 => ov + 28 + ch.below(121, "budget.dense") as usize,
        2 => {
            let k = 4 + ch.below(7, "budget.k") as usize;
            let d = ch.below(17, "budget.d") as i64 - 8;
            let which = ch.below(2, "budget.which") as usize;
            ((ov + 12 * which + (1 << k)) as i64 + d).max(0) as usize
        }
        3 => (ov + 28 + ch.below((1280usize.saturating_sub(ov + 28)) as u64 + 1, "budget.rnd") as usize).min(1280),
        4 => ov + 28, // the edge of the stated range
        5 => 1153 + ch.below(128, "budget.top") as usize, // above the default, up to the stated maximum
        // absolute powers of two and their neighbours
        _ => ((32usize << ch.below(6, "budget.pow2")) as i64 + ch.below(5, "budget.pow2.d") as i64 - 2) as usize,
    }
}
