//! Family `observe`: a server loop around the REAL `Subject` and
//! `create_notification`, written the way the doc comment on
//! `resource_changed` prescribes, with 2-5 observer clients that register,
//! re-register with a new token, deregister with the current or a stale
//! token, acknowledge, go silent or acknowledge wrongly, over a network that
//! drops, duplicates, delays and reorders.  The oracle is refinement against
//! a small reference model stepped with exactly the operations the server
//! performed and compared after every one of them.  Decides C14 and C15.
use crate::choices::{Ch, Fnv};
use crate::common::*;
use crate::des::*;
use crate::gen::gen_net;
use crate::json::J;
use coap_lite::{create_notification, CoapOption, CoapRequest, MessageClass, MessageType, ObserveOption, Packet, RequestType, Subject};
use std::collections::BTreeMap;

// ---- reference model -------------------------------------------------------

#[derive(Clone, Debug, PartialEq)]
struct MObs {
    ep: Ep,
    token: Vec<u8>,
    unacked: u32,
    pending: Option<u16>,
}

#[derive(Clone, Debug, Default)]
struct MRes {
    obs: Vec<MObs>,
}

struct Model {
    limit: u8,
    res: BTreeMap<String, MRes>,
}

impl Model {
    fn register(&mut self, path: &str, ep: Ep, token: &[u8]) {
        let r = self.res.entry(path.to_string()).or_default();
        let o = MObs { ep, token: token.to_vec(), unacked: 0, pending: None };
        match r.obs.iter().position(|x| x.ep == ep) {
            Some(p) => r.obs[p] = o,
            None => r.obs.push(o),
        }
    }
    fn deregister(&mut self, path: &str, ep: Ep, token: &[u8]) {
        if let Some(r) = self.res.get_mut(path) {
            if let Some(p) = r.obs.iter().position(|x| x.ep == ep && x.token == token) {
                r.obs.remove(p);
            }
        }
    }
    fn changed(&mut self, path: &str, mid: u16, con: bool) {
        let limit = self.limit as u32;
        if let Some(r) = self.res.get_mut(path) {
            for o in r.obs.iter_mut() {
                o.pending = Some(mid);
                if con {
                    o.unacked += 1;
                }
            }
            r.obs.retain(|o| o.unacked <= limit);
        }
    }
    /// Changing the limit is not one of the operations the properties speak
    /// about, so the model is tolerant: an observer whose count exceeds the
    /// new limit may be dropped right away or at the next round of its
    /// resource (today's behaviour).  `present` says what the implementation
    /// did; the model follows it.
    fn set_limit(&mut self, limit: u8, present: &dyn Fn(&str, Ep) -> bool) {
        self.limit = limit;
        for (path, r) in self.res.iter_mut() {
            r.obs.retain(|o| o.unacked <= limit as u32 || present(path, o.ep));
        }
    }
    fn acknowledge(&mut self, ep: Ep, mid: u16) {
        for r in self.res.values_mut() {
            if let Some(o) = r.obs.iter_mut().find(|o| o.ep == ep && o.pending == Some(mid)) {
                o.unacked = 0;
                o.pending = None;
            }
        }
    }
}

// ---- scripts ---------------------------------------------------------------

#[derive(Clone, Debug)]
enum Op {
    Register { path: usize, token: Vec<u8> },
    /// deregister with the token of the latest registration (`stale` = with
    /// the token of the registration before it, or a made-up one)
    Deregister { path: usize, stale: bool },
    /// ACK with a message id nobody sent / that was sent to someone else
    BogusAck { mid_mode: u8 },
    GoSilent,
    Resume,
}

#[derive(Clone, Debug)]
struct ClientScript {
    ep: Ep,
    ops: Vec<(u64, Op)>,
    ack_pm: u64,
    net: NetCfg,
}

#[derive(Clone, Debug)]
struct Spec {
    limit: u8,
    paths: Vec<String>,
    clients: Vec<ClientScript>,
    /// (time, path index, confirmable)
    rounds: Vec<(u64, usize, bool)>,
    /// (time, new limit): set_unacknowledged_limit called mid-history
    limit_changes: Vec<(u64, u8)>,
    mid0: u16,
}

fn gen_spec(ch: &mut Ch) -> Spec {
    let limit = *ch.pick(&[1u8, 0, 2, 3, 10, 254, 255], "o.limit");
    // "temp" first; its neighbours with an empty leading / trailing segment
    // ("/temp" = segments ["", "temp"], "temp/" = ["temp", ""]) are different
    // resources
    let pool = ["temp", "a/b", "x", "/temp", "temp/", "a"];
    let np = 1 + ch.below(3, "o.npaths") as usize;
    let mut paths: Vec<String> = vec![pool[0].to_string()];
    while paths.len() < np {
        let c = pool[ch.below(pool.len() as u64, "o.path.pick") as usize].to_string();
        if !paths.contains(&c) {
            paths.push(c);
        } else {
            let c2 = pool.iter().map(|x| x.to_string()).find(|x| !paths.contains(x)).unwrap();
            paths.push(c2);
        }
    }
    let long = ch.chance(1, 6, "o.long") || (limit >= 254 && ch.chance(1, 2, "o.long254"));
    let nrounds = if long { 260 + ch.below(341, "o.nrounds.long") } else { 1 + ch.below(40, "o.nrounds") } as usize;
    let horizon = nrounds as u64 * 100 * MS;
    let mut rounds = Vec::new();
    let con_bias = ch.below(4, "o.conbias"); // 0: all CON, 1: mostly CON, 2: mixed, 3: mostly NON
    for i in 0..nrounds {
        let t = (i as u64 + 1) * 100 * MS + ch.below(40, "o.round.jit") * MS;
        let pi = ch.below(np as u64, "o.round.path") as usize;
        let con = match con_bias {
            0 => true,
            1 => !ch.chance(1, 8, "o.round.non"),
            2 => ch.below(2, "o.round.con") == 1,
            _ => ch.chance(1, 8, "o.round.con"),
        };
        rounds.push((t, pi, con));
    }
    // an unobserved path gets rounds too
    if ch.chance(1, 3, "o.unobserved-round") {
        rounds.push((50 * MS, usize::MAX, true));
    }
    let faults = ch.below(10, "o.faulty") >= 3;
    // now and then a crowd of observers (more than any small fixed capacity)
    let crowd = !long && ch.chance(1, 25, "o.crowd");
    let nc = if crowd { 17 + ch.below(32, "o.nclients.crowd") as usize } else { 2 + ch.below(5, "o.nclients") as usize };
    let mut clients = Vec::new();
    for ci in 0..nc {
        let nops = 1 + ch.below(if long { 12 } else if crowd { 2 } else { 6 }, "o.nops") as usize;
        let mut ops = Vec::new();
        let mut t = ch.below(60, "o.op.t0") * MS;
        // every client starts by registering somewhere
        let tl = ch.below(9, "o.toklen") as usize;
        let mk_tok = |ch: &mut Ch, n: usize| -> Vec<u8> { (0..n).map(|_| ch.below(4, "o.tokbyte") as u8).collect() };
        let first_path = if crowd && !ch.chance(1, 8, "o.crowd.elsewhere") { 0 } else { ch.below(np as u64, "o.op.path") as usize };
        ops.push((t, Op::Register { path: first_path, token: mk_tok(ch, tl) }));
        for _ in 1..nops {
            t += ch.below(horizon / nops as u64 + 1, "o.op.gap");
            let op = match ch.weighted(&[30, 20, 12, 12, 10, 8, 8], "o.op.kind") {
                0 => {
                    let n = ch.below(9, "o.toklen") as usize;
                    Op::Register { path: ch.below(np as u64, "o.op.path") as usize, token: mk_tok(ch, n) }
                }
                1 => Op::Deregister { path: ch.below(np as u64, "o.op.path") as usize, stale: false },
                2 => Op::Deregister { path: ch.below(np as u64, "o.op.path") as usize, stale: true },
                3 => Op::BogusAck { mid_mode: ch.below(3, "o.bogus.mode") as u8 },
                4 => Op::GoSilent,
                5 => Op::Resume,
                _ => {
                    // re-register on the same path with a new token (restart)
                    let n = 1 + ch.below(8, "o.toklen") as usize;
                    Op::Register { path: 0, token: mk_tok(ch, n) }
                }
            };
            ops.push((t, op));
        }
        let ack_pm = *ch.pick(&[1000u64, 900, 500, 0, 990], "o.ack_pm");
        clients.push(ClientScript { ep: 10 + ci as Ep, ops, ack_pm, net: gen_net(ch, faults) });
    }
    let mut limit_changes = Vec::new();
    if ch.chance(1, 4, "o.limit-change") {
        let n = 1 + ch.below(2, "o.limit-change.n");
        for _ in 0..n {
            limit_changes.push((ch.below(horizon + 1, "o.limit-change.t"), *ch.pick(&[0u8, 1, 2, 3, 10, 255], "o.limit-change.v")));
        }
    }
    Spec { limit, paths, clients, rounds, limit_changes, mid0: if ch.chance(1, 6, "o.mid0.wrap") { 65_500 + ch.below(36, "o.mid0") as u16 } else { ch.below(65536, "o.mid0") as u16 } }
}

// ---- the world -------------------------------------------------------------

enum Ev {
    ClientOp { client: usize, idx: usize },
    ToServer { from: usize, bytes: Vec<u8> },
    ToClient { to: usize, bytes: Vec<u8>, truth: Notif },
    Round { idx: usize },
    SetLimit { value: u8 },
}

/// ground truth attached to every notification datagram
#[derive(Clone, Debug)]
struct Notif {
    path: String,
    token: Vec<u8>,
    mid: u16,
    con: bool,
    seq: u32,
    payload: Vec<u8>,
    is_notification: bool,
}

struct ClientState {
    silent: bool,
    /// tokens of this client's registrations per path, oldest first
    tokens: BTreeMap<usize, Vec<Vec<u8>>>,
    next_mid: u16,
    /// message ids of notifications this client has seen
    seen_mids: Vec<u16>,
}

fn minimal_uint(v: u32) -> Vec<u8> {
    let b = v.to_be_bytes();
    let skip = b.iter().take_while(|x| **x == 0).count();
    b[skip..].to_vec()
}

struct World {
    paths: Vec<String>,
    subject: Subject<Ep>,
    model: Model,
    viol: Vec<Violation>,
    stats: Stats,
    trace: Trace,
    states: Vec<u64>,
    bigrams: Vec<u64>,
    last_op: u8,
    /// last sequence sent per live registration (path, ep, token)
    last_seq: BTreeMap<(String, Ep, Vec<u8>), u32>,
    /// sequence carried by the last round that notified anybody, per path
    last_round_seq: BTreeMap<String, u32>,
    dead: bool,
    /// model and implementation disagreed once: later comparisons would only
    /// re-report the same divergence under other clause names
    diverged: bool,
}

impl World {
    fn snapshot_real(&self, path: &str) -> Vec<(Ep, Vec<u8>, Option<u8>, Option<Option<u16>>)> {
        match self.subject.get_resource_observers(path) {
            None => vec![],
            Some(v) => v
                .iter()
                .map(|o| {
                    #[cfg(feature = "hooks")]
                    {
                        (o.endpoint, o.token.clone(), Some(o.verif_unacknowledged()), Some(o.verif_pending_message_id()))
                    }
                    #[cfg(not(feature = "hooks"))]
                    {
                        (o.endpoint, o.token.clone(), None, None)
                    }
                })
                .collect(),
        }
    }

    fn all_paths(&self) -> Vec<String> {
        let mut v: Vec<String> = self.paths.clone();
        v.push("nobody-observes-this".into());
        v
    }

    /// Refinement check after one operation.  `op`: 1 register, 2 deregister,
    /// 3 round, 4 acknowledge.  `touched`: the path the operation addressed.
    fn compare(&mut self, op: u8, touched: Option<&str>, before: &BTreeMap<String, Vec<(Ep, Vec<u8>, Option<u8>, Option<Option<u16>>)>>, what: &str) {
        if self.diverged {
            return;
        }
        let nviol = self.viol.len();
        self.stats.hit("observe.ops-compared");
        let mut h = Fnv::default();
        for p in self.all_paths() {
            let real = self.snapshot_real(&p);
            let empty = MRes::default();
            let m = self.model.res.get(&p).unwrap_or(&empty);
            // ---- C14: registry ----------------------------------------
            let real_ids: Vec<(Ep, &[u8])> = real.iter().map(|o| (o.0, &o.1[..])).collect();
            let model_ids: Vec<(Ep, &[u8])> = m.obs.iter().map(|o| (o.ep, &o.token[..])).collect();
            // one observer per endpoint
            for (i, a) in real_ids.iter().enumerate() {
                if real_ids[..i].iter().any(|b| b.0 == a.0) {
                    self.viol.push(Violation::new("C14", "one-per-endpoint", format!("resource {:?} lists endpoint {} twice after {}", p, a.0, what)));
                }
            }
            if Some(p.as_str()) != touched && (op == 1 || op == 2 || op == 3) {
                // operations on one resource never change another's observers
                let b: Vec<(Ep, Vec<u8>)> = before.get(&p).map(|v| v.iter().map(|o| (o.0, o.1.clone())).collect()).unwrap_or_default();
                let a: Vec<(Ep, Vec<u8>)> = real.iter().map(|o| (o.0, o.1.clone())).collect();
                if a != b {
                    self.viol.push(Violation::new("C14", "other-resource-untouched", format!("{} changed the observers of another resource {:?}: {:?} -> {:?}", what, p, b, a)));
                }
            }
            if real_ids != model_ids {
                let (prop, clause) = match op {
                    1 => {
                        // replaced in place or appended?
                        let same_set = {
                            let mut a = real_ids.clone();
                            let mut b = model_ids.clone();
                            a.sort();
                            b.sort();
                            a == b
                        };
                        if same_set {
                            ("C14", "append-order")
                        } else {
                            ("C14", "replace-in-place")
                        }
                    }
                    2 => ("C14", "deregister-exact"),
                    3 => ("C15", "evict-exact"),
                    5 => ("C14", "other-resource-untouched"),
                    _ => ("C15", "ack-ignored"),
                };
                self.viol.push(Violation::new(prop, clause, format!("after {}: resource {:?} lists {:?}, reference model says {:?} (limit {})", what, p, real_ids, model_ids, self.model.limit)));
            } else {
                // ---- C15: counters (hook) --------------------------------
                for (r, mo) in real.iter().zip(m.obs.iter()) {
                    if let (Some(u), Some(pend)) = (r.2, r.3) {
                        if u as u32 != mo.unacked || pend != mo.pending {
                            let clause = match op {
                                // an effect on a resource other than the one
                                // the operation addressed is C14's matter
                                1 | 2 | 3 if touched.map_or(false, |t| t != p) => ("C14", "other-resource-untouched"),
                                1 => ("C14", "replace-in-place"),
                                3 if !what.contains("CON") => ("C15", "non-never-counts"),
                                4 if mo.unacked == 0 && u != 0 => ("C15", "ack-resets"),
                                4 => ("C15", "ack-ignored"),
                                _ => ("C15", "counter"),
                            };
                            self.viol.push(Violation::new(
                                clause.0,
                                clause.1,
                                format!("after {}: observer ep{} of {:?} has count {} pending {:?}, reference model says {} / {:?}", what, r.0, p, u, pend, mo.unacked, mo.pending),
                            ));
                            // an acknowledgement that, by the reference, left
                            // this resource exactly as it was and took effect
                            // on another one: one resource's operation changed
                            // another resource's observers (C14)
                            if op == 4 {
                                let unchanged_by_model = before.get(&p).map_or(false, |b| b.len() == m.obs.len() && b.iter().zip(m.obs.iter()).all(|(x, mo)| x.2.map(|v| v as u32) == Some(mo.unacked) && x.3 == Some(mo.pending)));
                                let effect_elsewhere = self.all_paths().iter().any(|q| *q != p && before.get(q).map_or(false, |b| *b != self.snapshot_real(q)));
                                if unchanged_by_model && effect_elsewhere {
                                    self.viol.push(Violation::new("C14", "other-resource-untouched", format!("{} took effect on one resource and also changed observer ep{} of another resource {:?}: count {} pending {:?}, was {} / {:?}", what, r.0, p, u, pend, mo.unacked, mo.pending)).with_sig("ack-crosses-resources"));
                                }
                            }
                            if op == 1 && clause.1 == "replace-in-place" {
                                // C15 counts "since its last acknowledgement
                                // or registration": a count that survives a
                                // registration breaks C15 as well as C14
                                self.viol.push(Violation::new(
                                    "C15",
                                    "counter",
                                    format!("after {}: observer ep{} of {:?} keeps count {} pending {:?} across a registration", what, r.0, p, u, pend),
                                ).with_sig("count-survives-registration"));
                            }
                        }
                    }
                }
            }
            // abstract registry state for the distinctness measure
            h.u64(real.len() as u64);
            let mut counts: Vec<u32> = m.obs.iter().map(|o| o.unacked.min(self.model.limit as u32 + 1).min(6)).collect();
            counts.sort();
            for c in counts {
                h.u64(c as u64);
            }
            h.byte(m.obs.iter().filter(|o| o.pending.is_some()).count().min(5) as u8);
        }
        // a notification round for an unobserved path creates nothing
        if self.subject.get_resource("nobody-observes-this").is_some() {
            self.viol.push(Violation::new("C14", "unobserved-round", "a round on a path nobody ever registered for created a resource".into()));
        }
        if self.viol.len() > nviol {
            self.diverged = true;
        }
        h.byte(self.model.limit.min(4));
        self.states.push(h.0);
        let mut b = Fnv::default();
        b.byte(self.last_op);
        b.byte(op);
        self.bigrams.push(b.0);
        self.last_op = op;
    }

    fn set_limit(&mut self, value: u8) {
        self.subject.set_unacknowledged_limit(value);
        let subject = &self.subject;
        let present = |path: &str, ep: Ep| -> bool { subject.get_resource_observers(path).map_or(false, |v| v.iter().any(|o| o.endpoint == ep)) };
        self.model.set_limit(value, &present);
    }

    fn before_all(&self) -> BTreeMap<String, Vec<(Ep, Vec<u8>, Option<u8>, Option<Option<u16>>)>> {
        self.all_paths().into_iter().map(|p| (p.clone(), self.snapshot_real(&p))).collect()
    }
}

/// Short histories over a tiny alphabet, applied directly to the Subject (no
/// network): 2 endpoints x 2 tokens x 2 paths (+ an unobserved one) x 2
/// message ids x {CON, NON} x limits {0, 1, 2}; 1-8 operations.  Dense
/// coverage of the short histories in which registry bugs show.
fn run_direct(ch: &mut Ch, verbose: bool) -> Outcome {
    let mut out = Outcome::new();
    let limit = ch.below(3, "od.limit") as u8;
    let paths = vec!["p".to_string(), "q".to_string()];
    let mut subject: Subject<Ep> = Subject::default();
    subject.set_unacknowledged_limit(limit);
    let mut w = World {
        paths: paths.clone(),
        subject,
        model: Model { limit, res: BTreeMap::new() },
        viol: Vec::new(),
        stats: Stats::default(),
        trace: Trace::new(verbose),
        states: Vec::new(),
        bigrams: Vec::new(),
        last_op: 0,
        last_seq: BTreeMap::new(),
        last_round_seq: BTreeMap::new(),
        dead: false,
        diverged: false,
    };
    let n = 1 + ch.below(8, "od.nops") as usize;
    let mut hist = Fnv::default();
    hist.byte(limit);
    for step in 0..n {
        if w.dead {
            break;
        }
        let kind = ch.weighted(&[24, 24, 24, 24, 4], "od.kind") as u64;
        let ep: Ep = 1 + ch.below(2, "od.ep") as Ep;
        let token = if ch.below(2, "od.token") == 0 { vec![0xA] } else { vec![0xB, 0xB] };
        let pi = ch.below(3, "od.path") as usize;
        let mid = 1 + ch.below(2, "od.mid") as u16;
        let con = ch.below(2, "od.con") == 1;
        hist.byte(kind as u8);
        hist.byte(ep as u8);
        hist.byte(token.len() as u8);
        hist.byte(pi as u8);
        hist.byte(mid as u8);
        hist.byte(con as u8);
        let before = w.before_all();
        match kind {
            0 | 1 => {
                let path = paths[pi % 2].clone();
                let mut req: CoapRequest<Ep> = CoapRequest::new();
                req.source = Some(ep);
                req.set_method(RequestType::Get);
                req.set_path(&path);
                req.message.set_token(token.clone());
                // the client's own message id, from the same small alphabet as
                // the server's notification ids (the two spaces are unrelated)
                req.message.header.message_id = mid;
                let subj = &mut w.subject;
                if kind == 0 {
                    req.set_observe_flag(ObserveOption::Register);
                    if let Err(m) = guard(|| subj.register(&req)) {
                        w.viol.push(Violation::new("C14", "panic", format!("register panicked: {}", m)));
                        break;
                    }
                    w.model.register(&path, ep, &token);
                    w.compare(1, Some(&path), &before, &format!("register(ep{}, {:?}, token {})", ep, path, crate::json::hex(&token)));
                } else {
                    req.set_observe_flag(ObserveOption::Deregister);
                    if let Err(m) = guard(|| subj.deregister(&req)) {
                        w.viol.push(Violation::new("C14", "panic", format!("deregister panicked: {}", m)));
                        break;
                    }
                    w.model.deregister(&path, ep, &token);
                    w.compare(2, Some(&path), &before, &format!("deregister(ep{}, {:?}, token {})", ep, path, crate::json::hex(&token)));
                }
            }
            2 => {
                let path = if pi == 2 { "nobody-observes-this".to_string() } else { paths[pi].clone() };
                let seq_before = w.subject.get_resource(&path).map(|r| (r.sequence, r.observers.len()));
                let subj = &mut w.subject;
                if let Err(m) = guard(|| subj.resource_changed(&path, mid, con)) {
                    w.viol.push(Violation::new("C15", "panic", format!("resource_changed panicked: {}", m)).with_sig(&format!("panic@{}", panic_site(&m))));
                    break;
                }
                w.model.changed(&path, mid, con);
                if let Some((s0, nobs)) = seq_before {
                    if nobs > 0 {
                        let after = w.subject.get_resource(&path).map(|r| r.sequence);
                        if after != Some(s0.wrapping_add(1)) {
                            w.viol.push(Violation::new("C15", "seq-plus-one", format!("round on {:?}: sequence {} -> {:?}", path, s0, after)));
                        }
                    }
                }
                w.compare(3, Some(&path), &before, &format!("{} round on {:?} (mid {})", if con { "CON" } else { "NON" }, path, mid));
            }
            4 => {
                let v = (pi % 3) as u8;
                w.set_limit(v);
                w.compare(5, None, &before, &format!("set_unacknowledged_limit({})", v));
            }
            _ => {
                let mut req: CoapRequest<Ep> = CoapRequest::new();
                req.source = Some(ep);
                req.message.header.set_type(MessageType::Acknowledgement);
                req.message.header.message_id = mid;
                let subj = &mut w.subject;
                if let Err(m) = guard(|| subj.acknowledge(&req)) {
                    w.viol.push(Violation::new("C15", "panic", format!("acknowledge panicked: {}", m)));
                    break;
                }
                w.model.acknowledge(ep, mid);
                w.compare(4, None, &before, &format!("acknowledge(ep{}, mid {})", ep, mid));
            }
        }
        w.trace.line(|| format!("step {}: kind {} ep{} token {} path#{} mid {} con {}", step, kind, ep, crate::json::hex(&token), pi, mid, con));
        if n <= 4 && step + 1 == n {
            out.groups.push((format!("direct histories of depth {}", n), hist.0));
        }
    }
    // the notification builder over its whole parameter space (C15: token
    // 0-8 bytes, sequence across the byte-length boundaries, both types)
    for _ in 0..2 {
        let seq = *ch.pick(&[0u32, 1, 255, 256, 257, 65_535, 65_536, (1 << 24) - 1, 1 << 24, (1 << 24) + 1, u32::MAX, 0x0100_0000, 0x00FF_00FF], "od.b.seq");
        let tl = ch.below(9, "od.b.toklen") as usize;
        let token: Vec<u8> = (0..tl).map(|i| 0xC0 + i as u8).collect();
        let con = ch.below(2, "od.b.con") == 1;
        let mid = *ch.pick(&[0u16, 1, 255, 256, 65_535, 0x1234], "od.b.mid");
        let payload: Vec<u8> = vec![0x70; ch.below(4, "od.b.paylen") as usize];
        let ok = match guard(|| create_notification(mid, token.clone(), seq, payload.clone(), con)) {
            Err(_) => false,
            Ok(pkt) => match pkt.to_bytes_unlimited().ok().and_then(|b| crate::refparse::accept(&b)) {
                None => false,
                Some(d) => {
                    let v = d.first_opt(6).filter(|b| b.len() <= 4).map(|b| b.iter().fold(0u32, |a, x| (a << 8) | *x as u32));
                    d.token == token && d.mid == mid && d.mtype() == if con { 0 } else { 1 } && d.payload == payload && v == Some(seq) && d.opt_values(6).len() == 1
                }
            },
        };
        w.stats.hit("c15.builder.checked");
        if !ok {
            w.viol.push(Violation::new("C15", "notification", format!("create_notification(mid {}, token of {} bytes, sequence {}, {} payload bytes, con {}) does not encode to these values", mid, tl, seq, payload.len(), con)).with_sig("builder"));
        }
    }
    w.stats.hit("observe.direct-short-histories");
    out.hash = hist.0;
    out.violations = std::mem::take(&mut w.viol);
    out.nontrivial = std::mem::take(&mut w.states);
    out.nontrivial.sort_unstable();
    out.nontrivial.dedup();
    out.distinct2 = std::mem::take(&mut w.bigrams);
    out.trace = std::mem::take(&mut w.trace.lines);
    out.units = w.stats.get("observe.ops-compared").max(1);
    out.stats = std::mem::take(&mut w.stats);
    if verbose {
        out.sample = Some(J::obj().set("mode", J::s("direct short history")).set("unacknowledged_limit", J::u(limit as u64)).set("operations", J::Arr(out.trace.iter().map(|l| J::s(l.clone())).collect())));
    }
    out
}

/// Thorough tier only: one very long history (70 000 rounds) so that the
/// sequence number crosses the 255/256 and 65 535/65 536 byte-length
/// boundaries of the Observe option encoding, with one observer that
/// acknowledges every confirmable round and one that is silent.
fn run_marathon(ch: &mut Ch, verbose: bool) -> Outcome {
    let mut out = Outcome::new();
    let limit = *ch.pick(&[255u8, 10, 254], "om.limit");
    let con_every = 1 + ch.below(3, "om.con-every") as usize;
    let path = "temp".to_string();
    let mut subject: Subject<Ep> = Subject::default();
    subject.set_unacknowledged_limit(limit);
    let mut w = World {
        paths: vec![path.clone()],
        subject,
        model: Model { limit, res: BTreeMap::new() },
        viol: Vec::new(),
        stats: Stats::default(),
        trace: Trace::new(verbose),
        states: Vec::new(),
        bigrams: Vec::new(),
        last_op: 0,
        last_seq: BTreeMap::new(),
        last_round_seq: BTreeMap::new(),
        dead: false,
        diverged: false,
    };
    for (ep, tok) in [(1 as Ep, vec![1u8, 2, 3]), (2 as Ep, vec![])] {
        let mut req: CoapRequest<Ep> = CoapRequest::new();
        req.source = Some(ep);
        req.set_method(RequestType::Get);
        req.set_path(&path);
        req.message.set_token(tok.clone());
        req.set_observe_flag(ObserveOption::Register);
        w.subject.register(&req);
        w.model.register(&path, ep, &tok);
    }
    let rounds = 70_000usize;
    let mut last_sent: Option<u32> = None;
    for i in 0..rounds {
        let con = i % con_every == 0;
        let mid = (i % 65536) as u16;
        let (seq, observers): (u32, Vec<(Ep, Vec<u8>)>) = match w.subject.get_resource(&path) {
            None => break,
            Some(r) => (r.sequence, r.observers.iter().map(|o| (o.endpoint, o.token.clone())).collect()),
        };
        for (_ep, token) in &observers {
            let pkt = create_notification(mid, token.clone(), seq, vec![0x76], con);
            let ok = match pkt.to_bytes_unlimited().ok().and_then(|b| Packet::from_bytes(&b).ok()) {
                None => false,
                Some(d) => d.get_first_option(CoapOption::Observe).filter(|b| b.len() <= 4).map(|b| b.iter().fold(0u32, |a, x| (a << 8) | *x as u32)) == Some(seq) && d.get_token() == &token[..] && d.header.message_id == mid,
            };
            w.stats.hit("c15.notification.checked");
            if !ok {
                w.viol.push(Violation::new("C15", "notification", format!("notification for sequence {} (round {}) does not encode / decode to it", seq, i)));
                break;
            }
        }
        if let Some(p) = last_sent {
            if !observers.is_empty() && seq <= p {
                w.viol.push(Violation::new("C15", "seq-plus-one", format!("sequence {} sent after {}", seq, p)));
            }
        }
        last_sent = Some(seq);
        let before = if i % 997 == 0 || i + 1 == rounds || (250..=260).contains(&i) { Some(w.before_all()) } else { None };
        let subj = &mut w.subject;
        if let Err(m) = guard(|| subj.resource_changed(&path, mid, con)) {
            w.viol.push(Violation::new("C15", "panic", format!("resource_changed panicked in round {}: {} (limit {})", i, m, limit)).with_sig(&format!("panic@{}", panic_site(&m))));
            break;
        }
        w.model.changed(&path, mid, con);
        if let Some(b) = before {
            w.compare(3, Some(&path), &b, &format!("{} round {} on {:?}", if con { "CON" } else { "NON" }, i, path));
        }
        if con {
            // endpoint 1 acknowledges every confirmable notification
            let mut ack: CoapRequest<Ep> = CoapRequest::new();
            ack.source = Some(1);
            ack.message.header.set_type(MessageType::Acknowledgement);
            ack.message.header.message_id = mid;
            w.subject.acknowledge(&ack);
            w.model.acknowledge(1, mid);
        }
        if !w.viol.is_empty() {
            break;
        }
    }
    if let Some(r) = w.subject.get_resource(&path) {
        if r.sequence >= 65_536 {
            w.stats.hit("probe.c15.sequence-crossed-65536");
        }
    }
    w.stats.hit("observe.marathon-runs");
    out.hash = w.subject.get_resource(&path).map_or(0, |r| r.sequence as u64);
    out.violations = std::mem::take(&mut w.viol);
    out.nontrivial = std::mem::take(&mut w.states);
    out.nontrivial.sort_unstable();
    out.nontrivial.dedup();
    out.units = rounds as u64;
    out.stats = std::mem::take(&mut w.stats);
    if verbose {
        out.sample = Some(J::obj().set("mode", J::s("marathon: 70000 rounds")).set("unacknowledged_limit", J::u(limit as u64)));
    }
    out
}

pub fn run(ch: &mut Ch, verbose: bool) -> Outcome {
    if thorough() && ch.chance(1, 2000, "o.marathon") {
        return run_marathon(ch, verbose);
    }
    if ch.chance(1, 3, "o.direct-mode") {
        return run_direct(ch, verbose);
    }
    let spec = gen_spec(ch);
    let mut out = Outcome::new();
    out.faulty_cfg = spec.clients.iter().any(|c| c.net.faulty());
    let mut q: Queue<Ev> = Queue::new();
    let mut subject: Subject<Ep> = Subject::default();
    subject.set_unacknowledged_limit(spec.limit);
    let mut w = World {
        paths: spec.paths.clone(),
        subject,
        model: Model { limit: spec.limit, res: BTreeMap::new() },
        viol: Vec::new(),
        stats: Stats::default(),
        trace: Trace::new(verbose),
        states: Vec::new(),
        bigrams: Vec::new(),
        last_op: 0,
        last_seq: BTreeMap::new(),
        last_round_seq: BTreeMap::new(),
        dead: false,
        diverged: false,
    };
    let mut cs: Vec<ClientState> = spec.clients.iter().map(|c| ClientState { silent: false, tokens: BTreeMap::new(), next_mid: (c.ep as u16) << 8, seen_mids: Vec::new() }).collect();
    for (ci, c) in spec.clients.iter().enumerate() {
        for (idx, (t, _)) in c.ops.iter().enumerate() {
            q.at(*t, Ev::ClientOp { client: ci, idx });
        }
    }
    for (idx, (t, _, _)) in spec.rounds.iter().enumerate() {
        q.at(*t, Ev::Round { idx });
    }
    for (t, v) in &spec.limit_changes {
        q.at(*t, Ev::SetLimit { value: *v });
    }
    let mut next_mid = spec.mid0;
    let mut events = 0u64;
    while let Some((_s, ev)) = q.pop() {
        events += 1;
        if events > 60_000 || w.dead {
            break;
        }
        let now = q.now();
        match ev {
            Ev::ClientOp { client, idx } => {
                let c = &spec.clients[client];
                let st = &mut cs[client];
                let mid = st.next_mid;
                st.next_mid = st.next_mid.wrapping_add(1);
                // observer stubs serialise with the reference encoder (GET,
                // Uri-Path segments, Observe 0 = empty value / 1 = one byte)
                let observe_req = |path: &str, token: &[u8], deregister: bool| -> Vec<u8> {
                    let mut opts: Vec<(u32, Vec<u8>)> = path.split('/').map(|sg| (11u32, sg.as_bytes().to_vec())).collect();
                    opts.push((6, if deregister { vec![1] } else { vec![] }));
                    crate::refparse::encode(1, 0, 0x01, mid, token, &opts, &[])
                };
                let bytes = match &c.ops[idx].1 {
                    Op::Register { path, token } => {
                        st.tokens.entry(*path % spec.paths.len()).or_default().push(token.clone());
                        observe_req(&spec.paths[*path % spec.paths.len()], token, false)
                    }
                    Op::Deregister { path, stale } => {
                        let pi = *path % spec.paths.len();
                        let toks = st.tokens.get(&pi).cloned().unwrap_or_default();
                        let token = if *stale {
                            w.stats.hit("fault.stale-deregister");
                            if toks.len() >= 2 {
                                toks[toks.len() - 2].clone()
                            } else {
                                vec![0xEE, 0xEE]
                            }
                        } else {
                            toks.last().cloned().unwrap_or_default()
                        };
                        observe_req(&spec.paths[pi], &token, true)
                    }
                    Op::BogusAck { mid_mode } => {
                        w.stats.hit("fault.bogus-ack");
                        let ack_mid = match mid_mode {
                            // an id nobody sent
                            0 => next_mid.wrapping_add(1000),
                            // the id of the most recent round (sent to every
                            // observer of that resource, perhaps not to us)
                            1 => next_mid.wrapping_sub(1),
                            // an id seen earlier (stale)
                            _ => st.seen_mids.first().copied().unwrap_or(7),
                        };
                        crate::refparse::encode(1, 2, 0x00, ack_mid, &[], &[], &[])
                    }
                    Op::GoSilent => {
                        st.silent = true;
                        w.stats.hit("fault.silent-observer");
                        continue;
                    }
                    Op::Resume => {
                        st.silent = false;
                        continue;
                    }
                };
                for d in net_send(&c.net, &bytes, ch, &mut w.stats) {
                    q.after(d.delay, Ev::ToServer { from: client, bytes: d.bytes });
                }
            }
            Ev::ToServer { from, bytes } => {
                let ep = spec.clients[from].ep;
                w.trace.ev(1, ep as u64, &bytes);
                let pkt = match guard(|| Packet::from_bytes(&bytes)) {
                    Ok(Ok(p)) => p,
                    _ => continue,
                };
                let req = CoapRequest::from_packet(pkt, ep);
                let t = req.message.header.get_type();
                if t == MessageType::Acknowledgement {
                    let mid = req.message.header.message_id;
                    let before = w.before_all();
                    let subj = &mut w.subject;
                    if let Err(msg) = guard(|| subj.acknowledge(&req)) {
                        w.viol.push(Violation::new("C15", "panic", format!("acknowledge panicked: {}", msg)).with_sig(&format!("panic@{}", panic_site(&msg))));
                        w.dead = true;
                        continue;
                    }
                    w.model.acknowledge(ep, mid);
                    w.stats.hit("observe.op.acknowledge");
                    w.trace.line(|| format!("t={} srv: ACK mid={} from ep{}", now, mid, ep));
                    w.compare(4, None, &before, &format!("acknowledge(ep{}, mid {})", ep, mid));
                    continue;
                }
                if req.message.header.code != MessageClass::Request(RequestType::Get) {
                    continue;
                }
                // the resource the client addressed: its Uri-Path segments
                // joined with '/', taken from the reference parser's view of the
                // datagram (not from the crate's get_path)
                let path = match crate::refparse::accept(&bytes) {
                    Some(f) => f.opt_values(11).iter().map(|sg| String::from_utf8_lossy(sg).to_string()).collect::<Vec<_>>().join("/"),
                    None => req.get_path(),
                };
                let token = req.message.get_token().to_vec();
                match req.get_observe_flag() {
                    Some(Ok(ObserveOption::Register)) => {
                        let before = w.before_all();
                        let subj = &mut w.subject;
                        if let Err(msg) = guard(|| subj.register(&req)) {
                            w.viol.push(Violation::new("C14", "panic", format!("register panicked: {}", msg)));
                            w.dead = true;
                            continue;
                        }
                        w.model.register(&path, ep, &token);
                        w.stats.hit("observe.op.register");
                        if before.get(&path).map_or(false, |v| v.iter().any(|o| o.0 == ep)) {
                            w.stats.hit("probe.c14.re-registration-replaces");
                        }
                        w.trace.line(|| format!("t={} srv: register ep{} path {:?} token {}", now, ep, path, crate::json::hex(&token)));
                        w.compare(1, Some(&path), &before, &format!("register(ep{}, {:?}, token {})", ep, path, crate::json::hex(&token)));
                    }
                    Some(Ok(ObserveOption::Deregister)) => {
                        let before = w.before_all();
                        let subj = &mut w.subject;
                        if let Err(msg) = guard(|| subj.deregister(&req)) {
                            w.viol.push(Violation::new("C14", "panic", format!("deregister panicked: {}", msg)));
                            w.dead = true;
                            continue;
                        }
                        let listed_other_token = before.get(&path).map_or(false, |v| v.iter().any(|o| o.0 == ep && o.1 != token));
                        if listed_other_token {
                            w.stats.hit("probe.c14.deregister-with-non-matching-token");
                        }
                        w.model.deregister(&path, ep, &token);
                        w.stats.hit("observe.op.deregister");
                        w.trace.line(|| format!("t={} srv: deregister ep{} path {:?} token {}", now, ep, path, crate::json::hex(&token)));
                        w.compare(2, Some(&path), &before, &format!("deregister(ep{}, {:?}, token {})", ep, path, crate::json::hex(&token)));
                    }
                    _ => {}
                }
            }
            Ev::Round { idx } => {
                let (_t, pi, con) = spec.rounds[idx];
                let path = if pi == usize::MAX { "nobody-observes-this".to_string() } else { spec.paths[pi].clone() };
                let mid = next_mid;
                next_mid = next_mid.wrapping_add(1);
                // notify the listed observers with the current sequence ...
                let (seq_before, observers): (Option<u32>, Vec<(Ep, Vec<u8>)>) = match w.subject.get_resource(&path) {
                    None => (None, vec![]),
                    Some(r) => (Some(r.sequence), r.observers.iter().map(|o| (o.endpoint, o.token.clone())).collect()),
                };
                // ordering obligations exist for a resource that is observed
                // under this very path name according to the reference model
                let model_observed = w.model.res.get(&path).map_or(false, |r| !r.obs.is_empty());
                let payload = format!("v{}", idx).into_bytes();
                for (ep, token) in &observers {
                    let seq = seq_before.unwrap_or(0);
                    let pkt = match guard(|| create_notification(mid, token.clone(), seq, payload.clone(), con)) {
                        Ok(p) => p,
                        Err(msg) => {
                            w.viol.push(Violation::new("C15", "panic", format!("create_notification panicked: {}", msg)));
                            continue;
                        }
                    };
                    let bytes = pkt.to_bytes_unlimited().unwrap_or_default();
                    // C15/notification, checked on the encoded bytes
                    w.stats.hit("c15.notification.checked");
                    // decoded with the reference parser, not with the crate's
                    match crate::refparse::accept(&bytes) {
                        None => w.viol.push(Violation::new("C15", "notification", "notification does not decode".into())),
                        Some(d) => {
                            let obs_opt: Option<Vec<u8>> = d.first_opt(6).cloned();
                            let want_t: u8 = if con { 0 } else { 1 };
                            // the Observe value must decode to the sequence
                            // (any uint encoding of it; minimality is C06's)
                            let obs_val = obs_opt.as_ref().filter(|b| b.len() <= 4).map(|b| b.iter().fold(0u32, |a, x| (a << 8) | *x as u32));
                            if obs_opt == Some(minimal_uint(seq)) {
                                w.stats.hit("c15.notification.minimal-uint");
                            }
                            if d.token != *token
                                || d.mid != mid
                                || d.mtype() != want_t
                                || d.payload != payload
                                || obs_val != Some(seq)
                                || d.opt_values(6).len() != 1
                            {
                                w.viol.push(Violation::new(
                                    "C15",
                                    "notification",
                                    format!("notification for ep{} (token {}, mid {}, seq {}, con {}) encodes as {}", ep, crate::json::hex(token), mid, seq, con, short(&bytes)),
                                ));
                            }
                        }
                    }
                    // sequences sent to one registration strictly increase
                    // (a registration the reference model knows under this
                    // very path name)
                    let key = (path.clone(), *ep, token.clone());
                    if let Some(prev) = w.last_seq.get(&key).filter(|_| model_observed) {
                        if seq <= *prev {
                            w.viol.push(Violation::new("C15", "seq-plus-one", format!("registration ep{} on {:?} was sent sequence {} after {}", ep, path, seq, prev)));
                        }
                    }
                    if model_observed {
                        w.last_seq.insert(key, seq);
                    }
                    // a registration that ended (eviction, cancellation, new
                    // token) ends its ordering obligation with it
                    let live_now: Vec<(Ep, Vec<u8>)> = observers.clone();
                    let pth = path.clone();
                    w.last_seq.retain(|(p0, e0, t0), _| *p0 != pth || live_now.iter().any(|(e1, t1)| e1 == e0 && t1 == t0));
                    if let Some(ci) = spec.clients.iter().position(|c| c.ep == *ep) {
                        let truth = Notif { path: path.clone(), token: token.clone(), mid, con, seq, payload: payload.clone(), is_notification: true };
                        for d in net_send(&spec.clients[ci].net, &bytes, ch, &mut w.stats) {
                            q.after(d.delay, Ev::ToClient { to: ci, bytes: d.bytes, truth: truth.clone() });
                        }
                    }
                }
                // successive notifications of a resource are strictly ordered
                // (also across the end of one registration and the start of
                // another: "successive notifications built from it")
                if !observers.is_empty() && model_observed {
                    let seq = seq_before.unwrap_or(0);
                    if let Some(prev) = w.last_round_seq.get(&path) {
                        if seq <= *prev {
                            w.viol.push(Violation::new("C15", "seq-plus-one", format!("round on {:?} notified with sequence {} after an earlier round had used {}", path, seq, prev)).with_sig("resource-order"));
                        }
                    }
                    w.last_round_seq.insert(path.clone(), seq);
                }
                // ... then tell the subject
                let before = w.before_all();
                let subj = &mut w.subject;
                if let Err(msg) = guard(|| subj.resource_changed(&path, mid, con)) {
                    w.viol.push(Violation::new("C15", "panic", format!("resource_changed panicked: {} (limit {})", msg, spec.limit)).with_sig(&format!("panic@{}", panic_site(&msg))));
                    w.dead = true;
                    continue;
                }
                w.model.changed(&path, mid, con);
                w.stats.hit(if con { "observe.op.round-con" } else { "observe.op.round-non" });
                // drop bookkeeping of registrations that are gone
                let live: Vec<(Ep, Vec<u8>)> = w.subject.get_resource(&path).map(|r| r.observers.iter().map(|o| (o.endpoint, o.token.clone())).collect()).unwrap_or_default();
                if live.len() < observers.len() {
                    w.stats.add("probe.c15.observers-evicted", (observers.len() - live.len()) as u64);
                }
                // sequence increases by exactly one on an observed resource
                if !observers.is_empty() {
                    let after = w.subject.get_resource(&path).map(|r| r.sequence);
                    w.stats.hit("c15.seq-plus-one.checked");
                    if after != seq_before.map(|s| s.wrapping_add(1)) {
                        w.viol.push(Violation::new("C15", "seq-plus-one", format!("round on {:?}: sequence {:?} -> {:?}", path, seq_before, after)));
                    }
                }
                if let Some(mx) = w.model.res.get(&path).map(|r| r.obs.iter().map(|o| o.unacked).max().unwrap_or(0)) {
                    if mx >= 200 {
                        w.stats.hit("probe.c15.count-200-or-more");
                    }
                    if mx == spec.limit as u32 && spec.limit > 0 {
                        w.stats.hit("probe.c15.observer-exactly-at-limit-kept");
                    }
                }
                w.trace.line(|| format!("t={} srv: round {} on {:?} mid={} {} -> {} observers notified, {} remain", now, idx, path, mid, if con { "CON" } else { "NON" }, observers.len(), live.len()));
                w.compare(3, Some(&path), &before, &format!("{} round on {:?} (mid {})", if con { "CON" } else { "NON" }, path, mid));
            }
            Ev::SetLimit { value } => {
                let before = w.before_all();
                w.set_limit(value);
                w.stats.hit("observe.op.set-limit");
                w.trace.line(|| format!("t={} srv: set_unacknowledged_limit({})", now, value));
                w.compare(5, None, &before, &format!("set_unacknowledged_limit({})", value));
            }
            Ev::ToClient { to, bytes, truth } => {
                let c = &spec.clients[to];
                let st = &mut cs[to];
                let Some(p) = crate::refparse::accept(&bytes) else { continue };
                if !truth.is_notification {
                    continue;
                }
                // what the observer sees is what the round built
                let seen_seq = p.first_opt(6).filter(|b| b.len() <= 4).map(|b| b.iter().fold(0u32, |a, x| (a << 8) | *x as u32));
                if p.token != truth.token || p.mid != truth.mid || p.payload != truth.payload || seen_seq != Some(truth.seq) {
                    w.viol.push(Violation::new("C15", "notification", format!("observer ep{} decoded a notification that differs from what the round sent ({:?})", c.ep, truth.path)));
                }
                st.seen_mids.push(p.mid);
                if truth.con && !st.silent && ch.chance(c.ack_pm, 1000, "o.ack") {
                    let ab = crate::refparse::encode(1, 2, 0x00, p.mid, &[], &[], &[]);
                    for d in net_send(&c.net, &ab, ch, &mut w.stats) {
                        q.after(d.delay, Ev::ToServer { from: to, bytes: d.bytes });
                    }
                }
            }
        }
    }
    out.sim_ns = q.now();
    out.hash = w.trace.h.0;
    out.violations = std::mem::take(&mut w.viol);
    out.nontrivial = std::mem::take(&mut w.states);
    out.nontrivial.sort_unstable();
    out.nontrivial.dedup();
    out.distinct2 = std::mem::take(&mut w.bigrams);
    out.distinct2.sort_unstable();
    out.distinct2.dedup();
    out.trace = std::mem::take(&mut w.trace.lines);
    out.units = w.stats.get("observe.ops-compared").max(1);
    out.stats = std::mem::take(&mut w.stats);
    if verbose {
        out.sample = Some(
            J::obj()
                .set("unacknowledged_limit", J::u(spec.limit as u64))
                .set("paths", J::Arr(spec.paths.iter().map(|p| J::s(p.clone())).collect()))
                .set("rounds", J::u(spec.rounds.len() as u64))
                .set("clients", J::Arr(spec.clients.iter().map(|c| J::s(format!("ep{} ack_pm={} net={:?} ops={:?}", c.ep, c.ack_pm, c.net, c.ops.iter().map(|(t, o)| format!("{}ms:{:?}", t / MS, o)).collect::<Vec<_>>()))).collect())),
        );
    }
    out
}
